#!/usr/bin/env python3
"""ownmutants.py [--only id,id] [--tier quick] : builds each mutant of mutants/own.json as a patch
(mutants/patches/<id>.diff), checks it still passes the baseline suite, runs the checks of its `props`
against it and writes mutants/RESULTS.json / RESULTS.md (killed / survived per check)."""
import argparse, json, os, subprocess, sys, tempfile, shutil
from concurrent.futures import ThreadPoolExecutor

VERIF = os.path.dirname(os.path.dirname(os.path.abspath(__file__)))


def make_patch(m):
    work = tempfile.mkdtemp(prefix="vpown-", dir="/tmp")
    wt = os.path.join(work, "repo")
    try:
        subprocess.run(["git", "-C", "/repo", "worktree", "add", "-q", "--detach", wt, "HEAD"], check=True)
        path = os.path.join(wt, m["file"])
        s = open(path).read()
        edits = m.get("edits") or [[m["old"], m["new"]]]
        for old, new in edits:
            if s.count(old) < 1:
                return None, "old text not found: %r" % old[:60]
            s = s.replace(old, new, 1)
        open(path, "w").write(s)
        d = subprocess.run(["git", "-C", wt, "diff"], stdout=subprocess.PIPE, text=True).stdout
        os.makedirs(os.path.join(VERIF, "mutants", "patches"), exist_ok=True)
        pp = os.path.join(VERIF, "mutants", "patches", m["id"] + ".diff")
        open(pp, "w").write(d)
        return pp, None
    finally:
        subprocess.run(["git", "-C", "/repo", "worktree", "remove", "--force", wt])
        shutil.rmtree(work, ignore_errors=True)


def run_one(m, tier, seeds):
    pp, err = make_patch(m)
    if err:
        return {"id": m["id"], "error": err}
    r = subprocess.run([os.path.join(VERIF, "tools", "mutrun.py"), pp] + m["props"] + ["--tier", tier, "--seeds", seeds],
                       stdout=subprocess.PIPE, stderr=subprocess.STDOUT, text=True)
    try:
        out = json.loads(r.stdout.strip().splitlines()[-1])
    except Exception:
        return {"id": m["id"], "error": r.stdout[-400:]}
    out["id"] = m["id"]
    out["props"] = m["props"]
    return out


def main():
    ap = argparse.ArgumentParser()
    ap.add_argument("--only")
    ap.add_argument("--tier", default="quick")
    ap.add_argument("--seeds", default="1")
    ap.add_argument("--jobs", type=int, default=3)
    ap.add_argument("--file", default="own.json", help="mutant list under mutants/ (benign.json = changes that keep every property: all checks must stay quiet)")
    a = ap.parse_args()
    ms = json.load(open(os.path.join(VERIF, "mutants", a.file)))
    if a.only:
        ms = [m for m in ms if m["id"] in a.only.split(",")]
    results = []
    with ThreadPoolExecutor(a.jobs) as ex:
        for res in ex.map(lambda m: run_one(m, a.tier, a.seeds), ms):
            results.append(res)
            if "error" in res:
                print("%-38s ERROR %s" % (res["id"], res["error"]))
                continue
            line = []
            for c, runs in res["checks"].items():
                killed = any(x["rc"] == 1 for x in runs)
                harness = any(x["rc"] == 2 for x in runs)
                line.append("%s:%s" % (c, "KILLED" if killed else ("HARNESS" if harness else "survived")))
            print("%-38s tests=%s/%s  %s" % (res["id"], res.get("tests_passed"), res.get("tests_failed"), "  ".join(line)), flush=True)
    rp = os.path.join(VERIF, "mutants", "RESULTS.json" if a.file == "own.json" else "RESULTS-" + a.file)
    old = {}
    if os.path.exists(rp):
        old = {r["id"]: r for r in json.load(open(rp))}
    for r in results:
        old[r["id"]] = r
    json.dump(list(old.values()), open(rp, "w"), indent=1)


if __name__ == "__main__":
    main()
