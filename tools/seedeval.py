#!/usr/bin/env python3
"""seedeval.py <Cnn> [more checks to run] [--tier quick] [--seeds "1"] [--only m1,m2]
Confirms the sub-agent's seeded changes in /tmp/seedout/<Cnn>/ (applies, baseline suite unchanged, demo
fails with / passes without) and runs the property's check (plus any extra checks) against each. Confirmed
changes are stored as /verif/seeded/<Cnn>-mN/ {patch.diff, demo.py, meta.json}."""
import argparse, json, os, shutil, subprocess, sys

VERIF = os.path.dirname(os.path.dirname(os.path.abspath(__file__)))


def main():
    ap = argparse.ArgumentParser()
    ap.add_argument("prop")
    ap.add_argument("extra", nargs="*")
    ap.add_argument("--tier", default="quick")
    ap.add_argument("--seeds", default="1")
    ap.add_argument("--only")
    ap.add_argument("--src", default="/tmp/seedout")
    ap.add_argument("--prefix", default="", help="label for a later round, e.g. r2 -> seeded/Cnn-r2m1")
    a = ap.parse_args()
    src = os.path.join(a.src, a.prop)
    for n in (1, 2, 3, 4, 5):
        name = "m%d" % n
        if a.only and name not in a.only.split(","):
            continue
        patch = os.path.join(src, name + ".diff")
        demo = os.path.join(src, "demo_%s.py" % name)
        if not os.path.exists(patch):
            # maybe already stored under /verif/seeded
            sd = os.path.join(VERIF, "seeded", "%s-%s%s" % (a.prop, a.prefix, name))
            if os.path.exists(os.path.join(sd, "patch.diff")):
                patch, demo = os.path.join(sd, "patch.diff"), os.path.join(sd, "demo.py")
            else:
                continue
        checks = [a.prop] + a.extra
        r = subprocess.run([os.path.join(VERIF, "tools", "mutrun.py"), patch] + checks +
                           ["--demo", demo, "--tier", a.tier, "--seeds", a.seeds],
                           stdout=subprocess.PIPE, stderr=subprocess.STDOUT, text=True)
        try:
            out = json.loads(r.stdout.strip().splitlines()[-1])
        except Exception:
            print(a.prop, name, "ERROR", r.stdout[-300:])
            continue
        confirmed = out.get("applies") and out.get("tests_passed") == 648 and out.get("tests_failed") == 0 \
            and out.get("demo_clean_rc") == 0 and out.get("demo_mutant_rc") not in (0, None)
        det = {c: ("KILLED" if any(x["rc"] == 1 for x in runs) else ("HARNESS" if any(x["rc"] == 2 for x in runs) else "survived"))
               for c, runs in out["checks"].items()}
        print("%s-%s%s confirmed=%s tests=%s/%s demo=%s->%s  %s" % (
            a.prop, a.prefix, name, bool(confirmed), out.get("tests_passed"), out.get("tests_failed"), out.get("demo_clean_rc"),
            out.get("demo_mutant_rc"), "  ".join("%s:%s%s" % (c, v, ("(" + ",".join(out["checks"][c][0]["buckets"][:2]) + ")") if v == "KILLED" else "")
                                                     for c, v in det.items())), flush=True)
        if confirmed:
            sd = os.path.join(VERIF, "seeded", "%s-%s%s" % (a.prop, a.prefix, name))
            os.makedirs(sd, exist_ok=True)
            if os.path.abspath(patch) != os.path.join(sd, "patch.diff"):
                shutil.copy(patch, os.path.join(sd, "patch.diff"))
                shutil.copy(demo, os.path.join(sd, "demo.py"))
            meta_p = os.path.join(sd, "meta.json")
            meta = json.load(open(meta_p)) if os.path.exists(meta_p) else {}
            agent_meta = os.path.join(src, name + ".json")
            if os.path.exists(agent_meta):
                try:
                    am = json.load(open(agent_meta))
                    meta.update({"breaks": am.get("breaks"), "needs": am.get("needs"), "files": am.get("files")})
                except Exception:
                    pass
            meta["property"] = a.prop
            meta["origin"] = "fresh sub-agent given only the property text and a scratch worktree"
            meta["confirmed"] = {"baseline_suite": "648 passed, 0 failed with the change applied",
                                 "demo": "exit %s on the unchanged tree, exit %s with the change" % (out["demo_clean_rc"], out["demo_mutant_rc"]),
                                 "how": "tools/mutrun.py (scratch worktree of /repo HEAD under /tmp, removed afterwards)"}
            d = meta.setdefault("detected_by", {})
            for c, v in det.items():
                d[c + ":" + a.tier] = {"result": v, "seeds": a.seeds, "buckets": out["checks"][c][0]["buckets"][:3]}
            json.dump(meta, open(meta_p, "w"), indent=1)


if __name__ == "__main__":
    main()
