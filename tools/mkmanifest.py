#!/usr/bin/env python3
"""Regenerates /verif/MANIFEST.json from the table below and validates it.
Run after adding a check:  python3 tools/mkmanifest.py"""
import json
import os

HERE = os.path.dirname(os.path.dirname(os.path.abspath(__file__)))

# id -> (technique, level text, level note, design ref)
CHECKS = {
    "C05": (
        "exhaustive enumeration of operator trees + Hypothesis grammar generation; round-trip "
        "oracle through an independent spec-table printer",
        "Every tree with up to 3 (thorough: 4) operator nodes over all 16 operators is printed "
        "minimally and fully parenthesised by a printer that knows only the OData precedence "
        "table, parsed and compared structurally (exhaustive within the bound); beyond that "
        "tens of thousands of random full-grammar trees incl. redundant parentheses. Bounded "
        "exhaustive + sampled, the right level for a table-driven LR parser whose conflicts are "
        "pairwise.",
        "Trusts the harness printer (spec table) and the structural decoder; deeper trees only sampled.",
        "DESIGN.md §6 C05",
    ),
    "C13": (
        "exhaustive small-tree enumeration + Hypothesis grammar generation; inverse (round-trip) and fixpoint oracle",
        "ASTs are obtained by parsing text printed by the harness's reference printer (so they lie in the "
        "parser's image); each is rendered by the library's round-trip visitor, re-parsed and compared "
        "(dataclass equality and decoded terms), and rendering is checked to be a fixpoint. Every "
        "1-operator shape x every pair of 18 leaf kinds and every 2-operator shape x each leaf kind is "
        "enumerated exhaustively; deeper trees with arbitrary Unicode strings are sampled.",
        "Trusts the library parser as the inverse (its grouping is decided separately by C05) and the structural decoder.",
        "DESIGN.md §6 C13",
    ),
    "C10": (
        "exhaustive atom-sequence enumeration + token mutation + Hypothesis text + long inputs + atheris/libFuzzer (thorough); outcome-class oracle and determinism",
        "All sequences of up to 3 (thorough: 4) atoms from a 58-atom alphabet covering every token class are "
        "parsed exhaustively; mutated valid filters, Unicode text and 24 families of 64 KB repetitive inputs "
        "are added, and the thorough tier runs a coverage-guided atheris campaign over atom sequences. Each "
        "outcome must be an AST node or one of the four library exceptions, and equal on re-parse.",
        "Termination is only bounded (120 s watchdog = inconclusive). Strings longer than 64 KB and atom sequences longer than 4 are only sampled.",
        "DESIGN.md §6 C10",
    ),
    "C11": (
        "exhaustive enumeration of (name, arity, style, argument kind) against an independent copy of the OData function table",
        "The whole finite domain the property quantifies over (33 built-ins + ~100 near-miss/custom names x 0..5 "
        "arguments x positional/named x 8 argument patterns, ~11 000 calls) is enumerated; accept/reject, the "
        "decoded call and the exception payload are predicted from the harness's own table.",
        "Trusts the hand-copied table in vp/spec_tables.py; argument counts above 5 are not enumerated.",
        "DESIGN.md §6 C11",
    ),
    "C06": (
        "Hypothesis generation of literal spellings per ABNF kind and keyword-embedding identifiers in 10 contexts + exhaustive optional-part enumeration; independently computed kind/value oracle",
        "Each generated well-formed literal or identifier is embedded in up to 10 expression contexts, parsed, "
        "and the node at the hole must have the generated kind, a .val that denotes the source's value and a "
        ".py_val equal to the value the harness computes itself from the spelling; identifiers must come back "
        "as one field reference with the namespace split off. Duration part subsets, date-time optional parts "
        "and keyword-affixed identifiers are enumerated exhaustively.",
        "Trusts the harness's value functions (vp/gen_lex.py); domain limited to years 1000-9999 and quote-free geography text.",
        "DESIGN.md §6 C06",
    ),
    "C14": (
        "Hypothesis grammar generation of trees x alias maps drawn from each tree; reference-model (independent substitution) oracle plus identity, no-mutation and inverse laws",
        "Alias maps are drawn from the field references, function names, parameter names and lambda variables of each "
        "generated tree, so they hit; the library's rewritten AST is decoded and compared with the harness's own "
        "substitution written from the property sentence, the input is snapshotted, and a fresh-name bijection is "
        "applied and inverted.",
        "Trusts vp/treeref.substitute; alias keys that are paths rooted at a lambda variable are excluded (statement silent).",
        "DESIGN.md §6 C14",
    ),
    "C17": (
        "Hypothesis grammar generation with planted variable-rooted paths and decoys; reference-model (independent re-rooting) oracle, identity and no-mutation checks",
        "Paths rooted at the variable (depth 1-4) and decoys (bare variable, inner segment, namespaced identifier of "
        "the same name) are planted at random operand positions of generated full-grammar trees; the result of "
        "expression_relative_to_identifier is decoded and compared with the harness's own re-rooting.",
        "Trusts vp/treeref.reroot; nested lambdas that re-bind the same variable name are outside the quantifier.",
        "DESIGN.md §6 C17",
    ),
    "C16": (
        "Hypothesis grammar generation x per-kind handler overrides x shipped visitors; reference traversal/map oracle, snapshot immutability, equality-vs-structure",
        "For each generated AST the visit order of a recording NodeVisitor is compared (by node identity) with the "
        "harness's own depth-first field-order walk; each node kind present gets an overriding handler in a visitor "
        "and in a transformer, compared with the harness's own bottom-up map; every shipped visitor is run on a "
        "deep-snapshotted input; == is compared with structural equality of decoded terms on near-copies.",
        "Trusts vp/treeref.walk_nodes and c16.ref_map (dataclasses.fields order).",
        "DESIGN.md §6 C16",
    ),
    "C01": (
        "Hypothesis typed-grammar generation of filters x adversarial rows, executed on real SQLite; differential oracle against an independent reference evaluator (two null readings)",
        "Well-typed filters of the SQLite fragment (depth <= 4/6, three parenthesisation styles) and 1-6 rows from "
        "a domain with NULLs, negatives, empty strings and SQL/LIKE metacharacters are generated together; the "
        "emitted WHERE clause runs on sqlite3 and the selected ids are compared, row by row, with a reference "
        "evaluator written from the OData specification. Rows on which strict OData null semantics and SQL "
        "propagation differ, or where the spec leaves the value open (inexact integer division, division by "
        "zero), are undecided and skipped; an exhaustive operator-pair sweep runs in both tiers; every case is followed by metamorphic companions in which one row's integer values replace the Int columns (that row must fare alike).",
        "Trusts vp/evalref.py and Python's sqlite3; LIKE case sensitivity and the datetime storage format are stated preconditions.",
        "DESIGN.md §6 C01",
    ),
    "C02": (
        "Hypothesis typed-grammar generation of filters x adversarial rows, executed through the Django ORM on SQLite; differential oracle against the reference evaluator + metamorphic literal-versus-column relations (per-case companions, exhaustive operator x operand sweep)",
        "As C01 for the Django fragment: generated filters and rows go through apply_odata_query on an in-memory "
        "SQLite database created with the schema editor; returned ids are compared row by row with the reference "
        "evaluator on decided rows; refusals and foreign exceptions on fragment filters are violations. Each case is followed by companions in which one row's integer values replace the Int columns (that row must fare alike), and an exhaustive sweep compares column and all-literal forms of every arithmetic operator over small operands of either sign.",
        "Trusts vp/evalref.py; SQLite is the only engine; bare boolean columns as predicates are outside the Django fragment (the backend refuses them on purpose).",
        "DESIGN.md §6 C02",
    ),
    "C03": (
        "Hypothesis typed-grammar generation with randomised keyword case x rows x three entry styles on SQLite; reference evaluator + mutual agreement + metamorphic (keyword case) oracle",
        "Each generated filter is applied through select(Model), session.query(Model) and select(table), in canonical "
        "and case-randomised spelling; every result is compared with the reference evaluator on decided rows, the "
        "three styles with each other on all rows, and the two spellings with each other.",
        "Trusts vp/evalref.py and the SQLite shims for strpos/concat/floor/ceil/regexp (documented meaning, no OData knowledge).",
        "DESIGN.md §6 C03",
    ),
    "C04": (
        "Hypothesis relational-grammar generation of filters x generated database instances on both ORMs + exhaustive small-shape tier; reference evaluator over the object graph and Django = SQLAlchemy differential",
        "Filters with to-one paths (depth 1-3, NULL foreign keys), any()/any(p)/all(p) over one-to-many, many-to-many "
        "and path-reached collections, nested lambdas and free and/or/not are generated together with small database "
        "instances; the same instance is loaded into Django and SQLAlchemy, parent ids from three entry points are "
        "compared with an object-graph evaluator on decided parents and with each other. Every collection x "
        "lambda form x instance shape with <= 2 parents and 0-2 children is enumerated.",
        "Trusts vp/relational.py; bodies range over non-null child columns; SQLite only.",
        "DESIGN.md §6 C04",
    ),
    "C18": (
        "exhaustive function x argument-kind table + Hypothesis typed-grammar generation; oracle from an independent copy of the OData return-type table",
        "Every built-in function with every admissible argument-kind combination (literal, field, call, arithmetic, "
        "list) and every operator class is enumerated, plus thousands of typed terms whose type the generator knows by "
        "construction; infer_type must answer None or the expected class, typecheck must accept well-typed nodes and "
        "reject literals of a kind outside the allowed set.",
        "Trusts vp/spec_tables.py and c18.SIGS (hand-copied from the OData function definitions).",
        "DESIGN.md §6 C18",
    ),
    "C20": (
        "Hypothesis rule-based state machine over shared lexer/parser instances (histories incl. raising inputs, abandoned and interleaved token generators) + child processes over hash seeds x import orders; invariant: shared = fresh",
        "Histories of parse calls (valid, tokenising/parsing/function errors), abandoned tokenizer generators, "
        "interleaved token pulls on two instances and AliasRewriter construction run against one shared pair; after "
        "every step the shared pair's outcome on a probe must equal a fresh pair's. Separate child processes with "
        "different PYTHONHASHSEED values and import orders must hash a generated corpus of outcomes identically.",
        "Single-threaded interleavings only; outcome equality is repr of the AST or exception class + message.",
        "DESIGN.md §6 C20",
    ),
    "C19": (
        "Hypothesis generation of filters x layout/case variants from the reference printer + exhaustive keyword x case-pattern table; metamorphic oracle (equal decoded AST up to literal values, equal backend outcome)",
        "For each accepted filter a variant is printed with random blank runs at required positions, optional blanks "
        "at the ABNF's BWS positions, random keyword case and case-mangled literal designators (T/Z, e, hex digits, "
        "duration letters); the variant must decode to the same term up to literal values, and every backend must "
        "give the same outcome for both spellings (SQLite by execution on generated rows, Django/SQLAlchemy by "
        "compiled SQL + parameters, standard/Athena text case-insensitively, round-trip by re-parsing). Date-time literals carry Z, an offset or no zone; every zone form x T/Z case assignment is executed exhaustively.",
        "Standard and Athena SQL are not executed; leading/trailing blanks of the whole filter are out of scope.",
        "DESIGN.md §6 C19",
    ),
    "C08": (
        "Hypothesis typed-grammar generation of templates x two sentinel assignments x three ORM backends; metamorphic oracle (identical SQL, no value text in SQL)",
        "Every value literal of a generated ORM-fragment filter (strings, ints, reals, dates, date-times, GUIDs, list "
        "elements, in every function-argument position) is replaced by two different sentinel assignments; the compiled "
        "SQL of Django, SQLAlchemy ORM and Core must be byte-identical for both and contain no sentinel text; how many "
        "sentinels reach the parameter list is measured.",
        "Compile-time inspection only (sql_with_params / compile); strings carry a unique marker so that escaping cannot hide them.",
        "DESIGN.md §6 C08",
    ),
    "C07": (
        "Hypothesis generation of templates x (benign, adversarial) hole contents x three dialects x alias + exhaustive (function, argument) x payload table; metamorphic non-interference under an independent SQL lexer, sqlite3 prepare as second opinion",
        "String literals and field names of generated SQL-fragment filters are holes; a benign and an adversarial "
        "instantiation (metacharacter-biased text, 40 injection payloads, Unicode identifiers) are translated by each "
        "dialect and both outputs are tokenised by the harness's own SQL-92 lexer: token sequences must be equal up "
        "to literal/identifier placeholders, every hole marker sits in exactly one string token, every quoted "
        "identifier is an expected field or the alias, and no comment or semicolon appears outside literals.",
        "SQL-92 lexical rules are assumed for all three dialects; a LIKE pattern with its ESCAPE clause counts as one literal; only SQLite text is handed to a real engine (prepare).",
        "DESIGN.md §6 C07",
    ),
    "C09": (
        "Hypothesis typed-grammar generation with unique leaves x dialect x alias + exhaustive function x composite-argument table; oracle: independent SQL lexer + per-dialect Pratt parser, operator/leaf correspondence",
        "Generated filters get unique field names and literal values so every leaf can be found again; each dialect's "
        "output must parse under the harness's own SQL parser with that dialect's documented precedence (predicates "
        "non-associative in SQL:1999/Trino, no bare placeholder words), every operator node of the filter must have "
        "an SQL node with the same operator and exactly the operands' leaves on each side, every leaf must occur "
        "once with its value, and the alias must qualify every field and nothing else; the `- 1` that indexof expands to must stay inside the operand of the parent operator.",
        "Standard and Athena SQL are judged by vp/sqlparse.py only (no engine offline); argument order inside function templates is free.",
        "DESIGN.md §6 C09",
    ),
    "C15": (
        "Hypothesis generation of filters x database instances over a fixed matrix of 30 base queries; metamorphic oracle (ordered multiset restriction of the base) + exhaustive registry import histories in fresh processes",
        "For every base query (pre-filtered, pre-joined on the same or another relationship, outer-joined, ordered, "
        "annotated, legacy Query, Manager, Core) the rows of apply(base, f) must equal the base's rows restricted to "
        "the keys f selects on the unfiltered query, as a multiset (as a sequence when the base is ordered); "
        "annotations stay selectable; an already-joined relationship appears once. sqlalchemy.func.<name> snapshots "
        "are compared before/after importing the backend and across import orders.",
        "The filter's own meaning is C02-C04's business; here only conjunction with the base is judged. SQLite only.",
        "DESIGN.md §6 C15",
    ),
    "C12": (
        "exhaustive (construct x position x backend) matrix + unknown-field and function-identity tables + Hypothesis typed composites; outcome-classification oracle (complete translation / library refusal / documented NotImplementedError, else violation)",
        "Every node kind the parser can produce and every built-in function is placed in every operand position it "
        "is well-typed in and handed to all seven backends; each outcome is classified: a complete translation "
        "(parses under the harness SQL parser / re-parses to the same term / compiles and mentions every field and "
        "literal), a library exception, or Core's documented NotImplementedError for navigation; anything else is a "
        "violation. Non-field names on SQLAlchemy must raise InvalidFieldException in every position; two different "
        "functions on the same arguments must not translate identically.",
        "Completeness on ORM backends is judged from compiled SQL + parameters; GeoDjango cells are skipped (libraries absent).",
        "DESIGN.md §6 C12",
    ),
}

ALL = ["C%02d" % i for i in range(1, 21)]

SETUP = ("/venv/bin/python -m pip install --quiet --no-index --find-links /opt/veriftools/wheels "
         "--target /verif/.deps hypothesis jsonschema atheris")
BASELINE_OFF = ("cd /repo && /venv/bin/python -m pytest -ra -q -p no:cacheprovider --timeout=900 "
                "--continue-on-collection-errors")


def main():
    checks = []
    for pid in ALL:
        if pid not in CHECKS:
            continue
        tech, text, note, ref = CHECKS[pid]
        checks.append({
            "property_id": pid,
            "quick_cmd": "./check %s --tier quick" % pid,
            "thorough_cmd": "./check %s --tier thorough" % pid,
            "evidence_file": "/verif/evidence/%s.json" % pid,
            "replay_cmd_template": "./check %s --replay {path}" % pid,
            "engine": "vp",
            "level_claimed": {"category": "exploration", "text": text, "design_ref": ref},
            "level_note": note,
            "technique": tech,
        })
    na = [{"property_id": p, "reason": "check not built yet (work in progress, see DESIGN.md §11)"}
          for p in ALL if p not in CHECKS]
    man = {
        "version": 1,
        "setup_cmd": SETUP,
        "hooks": {
            "guard": "ODATA_QUERY_VERIF",
            "enable": "no hooks: every property is observed through the public API; checks import /repo's working tree directly",
            "baseline_off_cmd": BASELINE_OFF,
            "source_commits": [],
            "add_only": True,
        },
        "engines": [{
            "name": "vp", "path": "/verif/vp",
            "serves_properties": [c["property_id"] for c in checks],
            "kind_free_text": "Python harness: Hypothesis strategies + exhaustive enumerators + reference models "
                              "(printer, decoder, evaluator, SQL lexer/parser); ./check <id> --tier quick|thorough",
        }],
        "checks": checks,
        "not_applicable": na,
        "notes": "Known findings: /verif/known_findings.json (committed, read-only at run time). "
                 "Replays: /verif/replays/<id>/*.json. VERIF_SEED selects the Hypothesis seed. Every check also draws terms "
                 "that are large along one dimension of a size ladder (DESIGN 12.5) and repeats one generated-search shard and "
                 "one exhaustive slice in child interpreters that differ from the default (python -O, TZ, hash seed, a busy second "
                 "thread, tree provenance; DESIGN 12.6); VERIF_NO_ENV_VARIANTS=1 switches the latter off.",
    }
    with open(os.path.join(HERE, "MANIFEST.json"), "w") as f:
        json.dump(man, f, indent=1)
        f.write("\n")
    try:
        import sys
        sys.path.insert(0, os.path.join(HERE, ".deps"))
        import jsonschema
        with open("/root/.vp/MANIFEST.schema.json") as f:
            jsonschema.validate(man, json.load(f))
        print("MANIFEST.json valid; %d checks, %d not_applicable" % (len(checks), len(na)))
    except ImportError:
        print("written (jsonschema not available for validation)")


if __name__ == "__main__":
    main()
