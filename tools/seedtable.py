#!/usr/bin/env python3
"""Regenerates the seeded-changes table of DESIGN.md (between the SEEDED-TABLE markers) from seeded/*/meta.json."""
import glob, json, os
HERE = os.path.dirname(os.path.dirname(os.path.abspath(__file__)))
rows = []
stats = {"total": 0, "killed": 0}
for d in sorted(glob.glob(os.path.join(HERE, "seeded", "*", "meta.json"))):
    m = json.load(open(d))
    sid = os.path.basename(os.path.dirname(d))
    det, miss = [], []
    for k, v in m.get("detected_by", {}).items():
        c = k.split(":")[0]
        if v["result"] == "KILLED":
            det.append("%s (%s)" % (c, ", ".join(b.split("@")[0] for b in v["buckets"][:2])))
        elif v["result"] == "inconclusive":
            det.append("%s: inconclusive (watchdog)" % c)
        else:
            miss.append(c)
    needs = (m.get("needs") or "").replace("|", "/").replace("\n", " ")
    needs = needs[:160] + ("…" if len(needs) > 160 else "")
    stats["total"] += 1
    stats["killed"] += 1 if any("(" in x and "inconclusive" not in x for x in det) else 0
    rows.append("| %s | %s | %s | %s |" % (sid, needs, "; ".join(det) or "-", ", ".join(miss)))
table = ("| change | needs (abridged from the agent's note) | caught by (quick tier, seed 1) | also run, quiet |\n|---|---|---|---|\n"
         + "\n".join(rows) + "\n")
p = os.path.join(HERE, "DESIGN.md")
s = open(p).read()
b, e = "<!-- SEEDED-TABLE-BEGIN -->\n", "<!-- SEEDED-TABLE-END -->\n"
if b in s:
    s = s[:s.index(b) + len(b)] + table + s[s.index(e):]
else:
    i = s.index("| change | needs (abridged")
    j = s.index("### 12.4 What the misses changed")
    s = s[:i] + b + table + e + "\n" + s[j:]
open(p, "w").write(s)
print(stats)
