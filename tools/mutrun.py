#!/usr/bin/env python3
"""mutrun.py <patch.diff> <check ids...> [--demo demo.py] [--tier quick] [--seeds "1 2"]
Applies the patch to a scratch worktree of /repo (outside /repo and /verif), confirms the baseline
suite still passes, runs the demonstration with and without the change, runs the named checks against
the scratch tree (VERIF_REPO), prints one summary line per check, and removes the worktree."""
import argparse, json, os, re, shutil, subprocess, sys, tempfile, time

VERIF = os.path.dirname(os.path.dirname(os.path.abspath(__file__)))
PY = "/venv/bin/python"


def sh(cmd, **kw):
    return subprocess.run(cmd, shell=isinstance(cmd, str), stdout=subprocess.PIPE, stderr=subprocess.STDOUT, text=True, **kw)


def main():
    ap = argparse.ArgumentParser()
    ap.add_argument("patch")
    ap.add_argument("checks", nargs="*")
    ap.add_argument("--demo")
    ap.add_argument("--tier", default="quick")
    ap.add_argument("--seeds", default="1")
    ap.add_argument("--skip-tests", action="store_true")
    a = ap.parse_args()
    work = tempfile.mkdtemp(prefix="vpmut-", dir="/tmp")
    wt = os.path.join(work, "repo")
    out = {"patch": a.patch, "checks": {}}
    try:
        r = sh(["git", "-C", "/repo", "worktree", "add", "-q", "--detach", wt, "HEAD"])
        if r.returncode:
            print("worktree failed", r.stdout); return 2
        if a.demo:
            env = dict(os.environ, PYTHONPATH=wt)
            d0 = sh([PY, os.path.abspath(a.demo)], env=env, cwd=work)
            out["demo_clean_rc"] = d0.returncode
        r = sh(["git", "-C", wt, "apply", os.path.abspath(a.patch)])
        if r.returncode:
            print("PATCH DOES NOT APPLY:", r.stdout[-500:]); out["applies"] = False; print(json.dumps(out)); return 3
        out["applies"] = True
        if not a.skip_tests:
            env = dict(os.environ, PYTHONPATH=wt)
            t = sh([PY, "-m", "pytest", "-q", "-p", "no:cacheprovider", "--continue-on-collection-errors", "--no-cov"], env=env, cwd=wt)
            m = re.search(r"(\d+) passed", t.stdout)
            f = re.search(r"(\d+) failed", t.stdout)
            out["tests_passed"] = int(m.group(1)) if m else 0
            out["tests_failed"] = int(f.group(1)) if f else 0
            if not m or f:
                out["tests_tail"] = t.stdout[-600:]
        if a.demo:
            env = dict(os.environ, PYTHONPATH=wt)
            d1 = sh([PY, os.path.abspath(a.demo)], env=env, cwd=work)
            out["demo_mutant_rc"] = d1.returncode
        for c in a.checks:
            for seed in a.seeds.split():
                env = dict(os.environ, VERIF_REPO=wt, VERIF_SEED=seed, VERIF_EVIDENCE_DIR=os.path.join(work, "ev"),
                           VERIF_FOUND_DIR=os.path.join(work, "found", c))
                t0 = time.time()
                r = sh([os.path.join(VERIF, "check"), c, "--tier", a.tier], env=env, cwd=VERIF)
                buckets = re.findall(r"bucket=(\S+)", r.stdout)
                out["checks"].setdefault(c, []).append({"seed": int(seed), "rc": r.returncode, "wall": round(time.time() - t0, 1),
                                                         "buckets": sorted(set(buckets))[:6],
                                                         "harness": "HARNESS-ERROR" in r.stdout})
                if r.returncode == 2:
                    out["checks"][c][-1]["tail"] = r.stdout[-800:]
    finally:
        sh(["git", "-C", "/repo", "worktree", "remove", "--force", wt])
        shutil.rmtree(work, ignore_errors=True)
    print(json.dumps(out))
    return 0


if __name__ == "__main__":
    sys.exit(main())
