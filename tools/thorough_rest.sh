#!/bin/sh
# tools/thorough_rest.sh <seed> <scale> <checks...> - thorough tier of the given checks at a fraction of the volume
cd "$(dirname "$0")/.." || exit 2
s=$1; sc=$2; shift 2
for c in "$@"; do
  out=$(VERIF_SEED=$s VERIF_SCALE=$sc ./check $c --tier thorough 2>&1); rc=$?
  echo "seed=$s scale=$sc $c rc=$rc $(echo "$out" | grep -a -E 'tier=' | tail -1)"
  if [ $rc -ne 0 ]; then echo "$out" | grep -a -E 'VIOLATION|HARNESS|bucket=' | head -5; fi
done
