#!/usr/bin/env python3
"""addfinding.py <id> <status> <property> <commit|-> <replay-name> '<what>' '<case-json>' [also,ids]
Appends an entry to known_findings.json and writes replays/<property>/<replay-name>.json."""
import json, os, sys
HERE = os.path.dirname(os.path.dirname(os.path.abspath(__file__)))
fid, status, prop, commit, rname, what, case = sys.argv[1:8]
also = sys.argv[8].split(",") if len(sys.argv) > 8 and sys.argv[8] else []
kp = os.path.join(HERE, "known_findings.json")
data = json.load(open(kp))
rp = "replays/%s/%s.json" % (prop, rname)
os.makedirs(os.path.join(HERE, "replays", prop), exist_ok=True)
json.dump({"property": prop, "finding": fid, "case": json.loads(case), "detail": what},
          open(os.path.join(HERE, rp), "w"), indent=1)
ent = {"id": fid, "status": status, "property": prop, "what": what, "replay": rp}
if also:
    ent["also"] = also
if status == "fixed":
    ent["commit"] = commit
    ent["line"] = "fixed: property=%s %s %s" % (prop, commit, what)
else:
    ent["line"] = "KNOWN-FINDING: property=%s %s" % (prop, what)
data["findings"] = [e for e in data["findings"] if not (e["id"] == fid and e["property"] == prop)] + [ent]
json.dump(data, open(kp, "w"), indent=1)
print("recorded", fid, status, rp)
