#!/bin/sh
# tools/allseeds.sh "2 3 4" [tier]  - run every check at the given seeds; print one line per run
cd "$(dirname "$0")/.." || exit 2
TIER=${2:-quick}
for s in $1; do
  for c in C01 C02 C03 C04 C05 C06 C07 C08 C09 C10 C11 C12 C13 C14 C15 C16 C17 C18 C19 C20; do
    out=$(VERIF_SEED=$s ./check $c --tier $TIER 2>&1); rc=$?
    echo "seed=$s $c rc=$rc $(echo "$out" | grep -a -E 'tier=' | tail -1)"
    if [ $rc -ne 0 ]; then echo "$out" | grep -a -E 'VIOLATION|HARNESS|bucket=' | head -5; fi
  done
done
