"""Reference tree functions over harness terms, written from the property sentences:
substitution (C14), re-rooting (C17), traversal order and single-kind map (C16).
No library imports."""
import dataclasses

from .terms import children, rebuild


# ---- C14: alias substitution ------------------------------------------------------------

def substitute(t, amap, bound=frozenset()):
    """t with every field reference that matches a key of amap replaced by its target.
    Field references: a bare identifier, a whole path, or the owner prefix of a longer
    path (longest match first). Function names, named-parameter names, lambda-bound
    variables (and their uses inside the lambda body), literals and operators stay."""
    k = t[0]
    if k == "id":
        if t[1] in bound and not t[2]:
            return t
        return amap.get(t, t)
    if k == "path":
        root = t
        while root[0] == "path":
            root = root[1]
        if root[0] == "id" and root[1] in bound and not root[2]:
            return t  # a path rooted at a lambda variable is relative to that variable
        if t in amap:
            return amap[t]
        return ("path", substitute(t[1], amap, bound), t[2])
    if k == "lit":
        return t
    if k == "call":
        return ("call", t[1], t[2], tuple(substitute(a, amap, bound) for a in t[3]))
    if k == "named":
        return ("named", t[1], substitute(t[2], amap, bound))
    if k == "lambda":
        owner = substitute(t[1], amap, bound)
        if t[4] is None:
            return ("lambda", owner, t[2], t[3], None)
        return ("lambda", owner, t[2], t[3], substitute(t[4], amap, bound | {t[3]}))
    return rebuild(t, [substitute(c, amap, bound) for c in children(t)])


def field_refs(t, bound=frozenset(), out=None):
    """All maximal field references (identifiers and whole paths) in expression position."""
    if out is None:
        out = []
    k = t[0]
    if k == "id":
        if not (t[1] in bound and not t[2]):
            out.append(t)
    elif k == "path":
        root = t
        while root[0] == "path":
            root = root[1]
        if not (root[0] == "id" and root[1] in bound and not root[2]):
            out.append(t)
            if root[0] != "id":
                field_refs(root, bound, out)
    elif k == "lit":
        pass
    elif k == "call":
        for a in t[3]:
            field_refs(a, bound, out)
    elif k == "named":
        field_refs(t[2], bound, out)
    elif k == "lambda":
        field_refs(t[1], bound, out)
        if t[4] is not None:
            field_refs(t[4], bound | {t[3]}, out)
    else:
        for c in children(t):
            field_refs(c, bound, out)
    return out


def path_prefixes(p):
    """p and all its owner prefixes, longest first (p itself included)."""
    out = [p]
    while p[0] == "path":
        p = p[1]
        out.append(p)
    return out


# ---- C17: re-rooting ------------------------------------------------------------------------

def reroot(t, var):
    """Every path rooted at the plain identifier `var` loses that root segment:
    var/a -> a, var/a/b -> a/b. Everything else is unchanged (a bare `var`, paths
    rooted elsewhere, namespaced identifiers, inner segments named like var)."""
    k = t[0]
    if k == "path":
        if t[1] == ("id", var, ()):
            return ("id", t[2], ())
        if t[1][0] == "path":
            return ("path", reroot(t[1], var), t[2])
        return ("path", reroot(t[1], var), t[2]) if t[1][0] != "id" else t
    if k in ("id", "lit"):
        return t
    return rebuild(t, [reroot(c, var) for c in children(t)])


# ---- C16: traversal order over the library's dataclasses (structure only) -------------------

def walk_nodes(node):
    """Depth-first, field-order traversal of a library AST: yields each dataclass
    node once, parents before children, list items in order."""
    yield node
    for f in dataclasses.fields(node):
        v = getattr(node, f.name)
        if isinstance(v, list):
            for item in v:
                if dataclasses.is_dataclass(item) and not isinstance(item, type):
                    yield from walk_nodes(item)
        elif dataclasses.is_dataclass(v) and not isinstance(v, type):
            yield from walk_nodes(v)
