"""C03 - SQLAlchemy ORM (2.x select, legacy Query) and Core shorthands return exactly the rows the
filter denotes, agree with each other, and keyword spelling never changes the result."""
from hypothesis import strategies as st

from .. import db_orm, gen_typed, lib, printer, semcheck
from ..runner import digest, hyp_run, known_ids
from ..terms import count_ops, from_json, to_json, walk
from . import c01

PROPERTY_ID = "C03"
RULE = ("Bool-typed filters of the SQLAlchemy fragment from the typed grammar (as C01 without unary minus and "
        "date(), plus second/round/floor/ceiling/matchesPattern), depth <= 4 (5), printed canonically and "
        "with randomised keyword letter case (TRUE, Null, AND, Eq, In ...), x 1-6 rows of the adversarial "
        "domain x the three entry styles select(Model), session.query(Model), select(table). Oracle: each "
        "style's primary keys vs the reference evaluator on decided rows; the three styles equal on all "
        "rows; the case-randomised spelling selects the same rows as the canonical one. Library or foreign "
        "exceptions on a fragment filter are violations. Non-trivial: >= 2 operator/function nodes and >= 1 "
        "decided row; distinct by (variant text, rows)."
        " Every case is followed, in the same process, by its look-alike twins (string-literal case swapped, blanks doubled); rows get needle-derived confuser strings.")
ASSUMPTIONS = c01.ASSUMPTIONS + [
    "strpos/concat/floor/ceil/regexp are registered on the SQLite connection with their documented meaning",
    "date-time literals are written in UTC (Z): SQLite has no time-zone type and SQLAlchemy drops offsets",
]

SA_FUNCS = gen_typed.STRING_FUNCS + ["year", "month", "day", "hour", "minute", "second",
                                     "round", "floor", "ceiling", "matchesPattern"]


def fragment():
    k = known_ids(PROPERTY_ID)
    return gen_typed.Fragment("sqla", funcs=SA_FUNCS, neg=False, bare_bool=True, bare_bool_fn=True,
                              null_left=True, dt_offsets="z", like_wildcards="A3" not in k)


STYLES = ("orm-select", "orm-legacy", "core", "orm-visitor", "core-visitor")


def _ast(text, rewrite):
    """The documented three steps: parse, optionally modify the tree (here: an alias rewriter whose
    aliases do not occur), hand it to a visitor."""
    a = lib.parse(text)
    if rewrite:
        from odata_query.rewrite import AliasRewriter
        a = AliasRewriter({"zz_not_a_field": "zz/other"}).visit(a)
    return a


def run_style(S, style, text):
    from odata_query.sqlalchemy import apply_odata_core, apply_odata_query
    sa = S.sa
    if style == "orm-select":
        stmt = apply_odata_query(sa.select(S.Item), text)
        return sorted(o.id for o in S.session.execute(stmt).scalars().all())
    if style == "orm-legacy":
        q = apply_odata_query(S.session.query(S.Item), text)
        return sorted(o.id for o in q.all())
    if style == "orm-visitor":
        from odata_query.sqlalchemy.orm import AstToSqlAlchemyOrmVisitor
        v = AstToSqlAlchemyOrmVisitor(S.Item)
        where = v.visit(_ast(text, len(text) % 2 == 0))
        stmt = sa.select(S.Item)
        for j in v.join_relationships:
            stmt = stmt.join(j, isouter=True)
        return sorted(o.id for o in S.session.execute(stmt.where(where)).scalars().all())
    if style == "core-visitor":
        from odata_query.sqlalchemy.core import AstToSqlAlchemyCoreVisitor
        where = AstToSqlAlchemyCoreVisitor(S.Item.__table__).visit(_ast(text, len(text) % 2 == 1))
        return sorted(r.id for r in S.conn.execute(sa.select(S.Item.__table__).where(where)).all())
    stmt = apply_odata_core(sa.select(S.Item.__table__), text)
    return sorted(r.id for r in S.conn.execute(stmt).all())


def check_case(case, fenced=True):
    from odata_query import exceptions
    t = from_json(case["term"])
    canon = printer.render(t, printer.Style())
    variant = printer.render(t, printer.RandomStyle(case.get("style_seed", 0), ws=False, case=True,
                                                    p_case=0.6))
    S = db_orm.sqlalchemy_load({"items": case["rows"]})
    results = {}
    for spelling, text in (("canonical", canon), ("variant", variant)):
        for style in STYLES:
            S.session.expunge_all()
            try:
                results[(spelling, style)] = run_style(S, style, text)
            except exceptions.ODataException as e:
                S.session.rollback()
                return ("refused:%s" % type(e).__name__, "%s %r -> %s: %s" % (style, text, type(e).__name__, e))
            except Exception as e:
                S.session.rollback()
                if lib.engine_limit(e):
                    case["_stats"] = {"decided": 0, "undecided": 0, "engine_limit": 1}
                    return None
                return ("foreign:%s@%s" % (type(e).__name__, lib.innermost_frame(e)),
                        "%s %r -> %s: %s" % (style, text, type(e).__name__, str(e)[:300]))
    fences = known_ids(PROPERTY_ID) if fenced else ()
    stats = None
    for style in STYLES:
        bad, stats = semcheck.compare(t, case["rows"], set(results[("canonical", style)]), fences=fences)
        if bad:
            case["_stats"] = stats
            return (bad[0], "%s %r ; %s" % (style, canon, bad[1]))
    case["_stats"] = stats
    if not stats.get("excluded_by_known_finding"):
        base = results[("canonical", "orm-select")]
        for style in STYLES[1:]:
            if results[("canonical", style)] != base:
                return ("styles-disagree", "%r: orm-select=%r %s=%r" % (canon, base, style, results[("canonical", style)]))
    for style in STYLES:
        if results[("variant", style)] != results[("canonical", style)]:
            return ("keyword-case-changes-result", "%s: %r -> %r but %r -> %r" % (
                style, canon, results[("canonical", style)], variant, results[("variant", style)]))
    # metamorphic companion: the row's own integer values written as literals must not change the row's fate
    # (needs no reading of div and mod; directed at literal operands, e.g. a constant folder)
    if not stats.get("excluded_by_known_finding"):
        ran = skipped = 0
        for i, t2 in semcheck.literalised(t, case["rows"], case.get("style_seed", 0), max_rows=1):
            text2 = printer.render(t2, printer.Style())
            for style in ("orm-select", "core"):
                S.session.expunge_all()
                try:
                    ids_l = set(run_style(S, style, text2))
                except Exception:
                    S.session.rollback()
                    skipped += 1        # the companion may leave the supported fragment: nothing is decided
                    continue
                ran += 1
                ids0 = set(results[("canonical", style)])
                if ((i + 1) in ids_l) != ((i + 1) in ids0):
                    return ("literalised-row-differs", "%s row %d %r: %r %s it, but with its integer values as literals %r %s it" % (
                        style, i + 1, case["rows"][i], canon, "selects" if (i + 1) in ids0 else "does not select", text2,
                        "selects" if (i + 1) in ids_l else "does not select"))
        stats["literalised_ran"] = ran
        stats["literalised_skipped"] = skipped
    return None


def check_with_twins(case, fenced=True):
    """The case itself, then its look-alike twins in the same process (state carried across calls)."""
    r = check_case(case, fenced)
    if r:
        return r
    for t2 in semcheck.lookalike_twins(from_json(case["term"])):
        c2 = {k: v for k, v in case.items() if not k.startswith("_")}
        c2["term"] = to_json(t2)
        r = check_case(c2, fenced)
        if r:
            return ("after-lookalike:" + r[0], "after %r: %s" % (printer.render(from_json(case["term"])), r[1]))
    return None


def replay(case):
    return check_with_twins(dict(case), fenced=False)


signature = c01.signature


def shrink(case, bucket):
    case = {k: v for k, v in case.items() if not k.startswith("_")}
    return semcheck.shrink_case(case, bucket, fragment(), lambda c: check_with_twins(dict(c)), budget=150)


def plan(tier, seed, scale):
    K = 16
    total = int((10000 if tier == "quick" else 70000) * scale)
    return [{"name": "rand-%d" % i, "kind": "rand", "n": max(total // K, 10), "shard": i,
             "depth": 4 if tier == "quick" else 5} for i in range(K)]


def run_task(task, seed, acc):
    Fg = fragment()

    def one(case):
        t = from_json(case["term"])
        r = check_with_twins(case)
        stats = case.pop("_stats", None) or {"decided": 0, "undecided": 0}
        nt = count_ops(t) >= 2 and stats.get("decided", 0) >= 1
        variant = printer.render(t, printer.RandomStyle(case.get("style_seed", 0), ws=False, case=True, p_case=0.6))
        canon = printer.render(t)
        acc.case(key=digest([variant, case["rows"]]), nontrivial=nt, n=6,
                 sample={"filter": variant, "rows": case["rows"][:2]})
        if variant != canon:
            acc.cls("keyword_in_noncanonical_case")
        acc.cls("rows_decided", stats.get("decided", 0))
        acc.cls("rows_undecided", stats.get("undecided", 0))
        acc.cls("rows_selected", stats.get("selected", 0))
        acc.cls("rows_excluded_by_known_finding", stats.get("excluded_by_known_finding", 0))
        acc.cls("filters_beyond_an_engine_limit", stats.get("engine_limit", 0))
        acc.cls("literalised_companions_run", stats.get("literalised_ran", 0))
        acc.cls("literalised_companions_undecided", stats.get("literalised_skipped", 0))
        for c in c01.classes_of(t, case["rows"]):
            acc.cls(c)
        if r:
            acc.fail(r[0], case, r[1])

    strat = st.tuples(gen_typed.pred(task["depth"], Fg), gen_typed.rows_strategy(), st.integers(0, 2 ** 20))

    def fn(tup):
        t, rows, sseed = tup
        one({"term": to_json(t), "rows": semcheck.confuse_rows(t, rows, sseed), "style_seed": sseed})

    hyp_run(strat, fn, task["n"], seed * 1000 + task["shard"])
