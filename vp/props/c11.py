"""C11 - function calls are accepted iff name and argument count match the OData table."""
from .. import lib, printer, spec_tables
from ..decode import DecodeError, decode
from ..runner import digest
from ..terms import from_json, ident, to_json

PROPERTY_ID = "C11"
RULE = ("exhaustive: every built-in name of the harness's own copy of the OData function table (33) "
        "and ~60 near-miss names (case variants, prefixes/suffixes, geo.-prefixed non-geo names, "
        "un-prefixed geo names, other namespaces) x 0..5 arguments x {positional, all-named} x 8 "
        "argument-kind patterns (literal, field, path, list, nested call, comparison, lambda, mixed); plus, for every name, "
        "6-129 arguments (size ladder) incl. arguments that all repeat one or two literals, and names of 33-128 characters; "
        "oracle computed from the table alone: accept/reject, decoded call (name, namespace, "
        "arguments in source order, parameter names) or exception class and payload fields. "
        "Every case is non-trivial; distinct by source text.")
ASSUMPTIONS = ["function names are case-sensitive (OData ABNF)",
               "the reported function name is the dotted name as written in the table (geo.distance)"]

TABLE = spec_tables.FUNCTIONS


def arg_of(kind, i):
    n = str(i + 1)
    if kind == "literal":
        return ("lit", "int", n)
    if kind == "field":
        return ident("c" + n)
    if kind == "path":
        return ("path", ident("p" + n), "q")
    if kind == "list":
        return ("list", (("lit", "int", n), ("lit", "str", "x" + n)))
    if kind == "call":
        return ("call", "tolower", (), (ident("s" + n),))
    if kind == "cmp":
        return ("cmp", "eq", ident("c" + n), ("lit", "int", n))
    if kind == "lambda":
        return ("lambda", ident("coll" + n), "any", "v",
                ("cmp", "gt", ("path", ident("v"), "n"), ("lit", "int", n)))
    if kind == "same-literal":
        return ("lit", "int", "7")
    if kind == "two-values":
        return ("lit", "str", "ab"[i % 2])
    raise ValueError(kind)


KINDS = ["literal", "field", "path", "list", "call", "cmp", "lambda"]


def args_for(pattern, n):
    if pattern == "mixed":
        return tuple(arg_of(KINDS[(i * 3 + n) % len(KINDS)], i) for i in range(n))
    return tuple(arg_of(pattern, i) for i in range(n))


def names():
    out = []
    for (ns, name) in TABLE:
        out.append((ns, name))
    base = [n for (ns, n) in TABLE if ns == ()]
    near = set()
    for n in ["contains", "length", "substring", "now", "matchesPattern", "year", "round",
              "hassubset", "concat", "date"]:
        near.add(((), n.upper()))
        near.add(((), n.capitalize()))
        near.add(((), n[0].upper() + n[1:]))
        near.add(((), n.swapcase()))
        near.add(((), n + "s"))
        near.add(((), n[:-1]))
        near.add(((), "_" + n))
        near.add((("geo",), n))          # geo.-prefixed non-geo name
        near.add((("Geo",), n))          # other namespace (case differs): custom
        near.add((("odata",), n))        # custom namespace
    near.add(((), "matchespattern"))
    for n in ["distance", "intersects"]:
        near.add(((), n))                # un-prefixed geo names
        near.add((("geo",), n.upper()))
    near.add((("geo",), "area"))
    near.add((("geo", "x"), "distance"))  # deeper namespace: custom
    near.add((("x", "geo"), "distance"))
    for ns in [("x",), ("a", "b"), ("geography",), ("my", "ns", "deep")]:
        for n in ["f", "contains", "length", "now"]:
            near.add((ns, n))
    for item in sorted(near):
        if item not in TABLE:
            out.append(item)
    return out


def expected(ns, name, n):
    """From the table alone: ("accept",) | ("unknown", fname) | ("count", fname, lo, hi, n)."""
    if ns not in ((), ("geo",)):
        return ("accept",)
    full = ".".join(ns + (name,))
    if (ns, name) not in TABLE:
        return ("unknown", full)
    lo, hi = TABLE[(ns, name)]
    if lo <= n <= hi:
        return ("accept",)
    return ("count", full, lo, hi, n)


def check_case(case):
    from odata_query import exceptions as ex
    ns = tuple(case["ns"])
    name = case["name"]
    n = case["n"]
    args = args_for(case["pattern"], n)
    if case["style"] == "named":
        args = tuple(("named", "p%d" % i, a) for i, a in enumerate(args))
    term = ("call", name, ns, args)
    text = printer.render(term)
    exp = expected(ns, name, n)
    try:
        ast = lib.parse(text)
    except ex.UnknownFunctionException as e:
        if exp[0] != "unknown":
            return ("wrongly-rejected-unknown", "%r: expected %r, got UnknownFunctionException" % (text, exp))
        if getattr(e, "function_name", None) != exp[1]:
            return ("unknown-payload", "%r: function_name=%r expected %r" % (text, getattr(e, "function_name", None), exp[1]))
        return None
    except ex.ArgumentCountException as e:
        if exp[0] != "count":
            return ("wrongly-rejected-count", "%r: expected %r, got ArgumentCountException(%s)" % (text, exp, e))
        got = (getattr(e, "function_name", None), getattr(e, "exp_min_args", None),
               getattr(e, "exp_max_args", None), getattr(e, "n_args_given", None))
        if got != exp[1:]:
            return ("count-payload", "%r: payload %r expected %r" % (text, got, exp[1:]))
        if not isinstance(e, ex.ODataException):
            return ("exception-hierarchy", "ArgumentCountException is not an ODataException")
        return None
    except Exception as e:
        return ("exception:" + lib.exc_bucket(e), "%r -> %s: %s (expected %r)" % (text, type(e).__name__, e, exp))
    if exp[0] != "accept":
        return ("wrongly-accepted", "%r accepted, expected %r" % (text, exp))
    try:
        got = decode(ast)
    except DecodeError as e:
        return ("malformed-ast", "%r: %s" % (text, e))
    if got != term:
        return ("call-structure", "%r decoded to %r expected %r" % (text, got, term))
    return None


def replay(case):
    return check_case(case)


LARGE_N = [6, 7, 9, 16, 17, 33, 65, 129]


def all_cases():
    for ns, name in names():
        for n in range(0, 6):
            for style in ("positional", "named"):
                if style == "named" and n == 0:
                    continue
                for pattern in KINDS + ["mixed"]:
                    if n == 0 and pattern != "literal":
                        continue
                    yield {"ns": list(ns), "name": name, "n": n, "style": style, "pattern": pattern}
        # argument counts further up the size ladder, and arguments that repeat one another
        for n in LARGE_N:
            for style in ("positional", "named"):
                for pattern in ("literal", "mixed", "same-literal", "two-values"):
                    yield {"ns": list(ns), "name": name, "n": n, "style": style, "pattern": pattern}
        for n in (2, 3, 5):
            for pattern in ("same-literal", "two-values"):
                yield {"ns": list(ns), "name": name, "n": n, "style": "positional", "pattern": pattern}
    # names along the length ladder (the whole dotted token is at most 128 characters)
    for L in (33, 61, 64, 65, 66, 100, 124, 125, 128):
        for stem in ("contains", "f", "Z9_", "length"):
            for ns in ((), ("geo",), ("my",)):
                name = (stem + "x" * 200)[: L - sum(len(x) + 1 for x in ns)]
                for n in (0, 1, 2, 5):
                    yield {"ns": list(ns), "name": name, "n": n, "style": "positional", "pattern": "literal"}


def plan(tier, seed, scale):
    K = 16
    return [{"name": "exh-%d" % i, "i": i, "k": K} for i in range(K)]


def run_task(task, seed, acc):
    for idx, case in enumerate(all_cases()):
        if idx % task["k"] != task["i"]:
            continue
        r = check_case(case)
        exp = expected(tuple(case["ns"]), case["name"], case["n"])
        acc.cls("expected_" + exp[0])
        acc.case(key=digest(case), nontrivial=True, sample=case if idx % 997 == task["i"] else None)
        if r:
            acc.fail(r[0], case, r[1])
    acc.extra["exhaustive"] = True
