"""C04 - navigation paths and any/all lambdas mean what OData says on the ORM backends."""
import itertools

from hypothesis import strategies as st

from .. import db_orm, lib, printer, relational as rel, shrink as shr
from ..runner import digest, hyp_run, known_ids
from ..terms import from_json, to_json, walk

PROPERTY_ID = "C04"
RULE = ("filters from the relational grammar (scalar predicates on the parent; to-one paths of depth 1-3 "
        "compared to literals or null, incl. a relationship itself compared to null; coll/any(), coll/any(v: "
        "body), coll/all(v: body) over parts, tags, owner/items, owner/org/owners with bodies over the "
        "child's non-null columns, nested lambdas, to-one navigation inside bodies; free and/or/not) x "
        "generated database instances (0-2 regions, 0-2 orgs, 0-3 owners, 1-4 items, 0-3 parts per item, "
        "shared many-to-many tags, foreign keys NULL with p~0.3). Oracle: parent ids from Django and from "
        "SQLAlchemy (select and legacy Query) vs the reference evaluator over the object graph on decided "
        "parents, no duplicates, and Django = SQLAlchemy. Exhaustive mini-tier: every collection x {any(), "
        "any(p), all(p), not any(), not all(p)} x every instance shape with <= 2 parents and 0-2 children. "
        "Non-trivial: the filter has a path or lambda and the instance has a parent with an empty collection "
        "or a NULL foreign key on a navigated relationship; distinct by (filter, instance)."
        " Roots: Item (parts, tags, owner, home), Owner (items, org, region, home) and Tag (items), so that one-to-many children with a NULL foreign key ('orphans') and same-named relationships on different models occur.")
ASSUMPTIONS = ["lambda bodies range over non-null child columns, so they are never NULL",
               "SQLite is the only engine; both ORMs load the same instance"]


def cfg():
    k = known_ids(PROPERTY_ID)
    return rel.RelCfg(body_to_one="A5" not in k)


def run_django(inst, text, root="Item"):
    from odata_query.django import apply_odata_query
    M = db_orm.django_load(inst)
    return list(apply_odata_query(getattr(M, root).objects, text).values_list("id", flat=True))


def run_sqla(inst, text, legacy=False, root="Item"):
    from odata_query.sqlalchemy import apply_odata_query
    S = db_orm.sqlalchemy_load(inst)
    S.session.expunge_all()
    model = getattr(S, root)
    try:
        if legacy:
            return [o.id for o in apply_odata_query(S.session.query(model), text).all()]
        return [o.id for o in S.session.execute(apply_odata_query(S.sa.select(model), text)).scalars().all()]
    except Exception:
        S.session.rollback()
        raise


BACKENDS = [("django", lambda i, t, r: run_django(i, t, r)),
            ("sqlalchemy-select", lambda i, t, r: run_sqla(i, t, root=r)),
            ("sqlalchemy-legacy", lambda i, t, r: run_sqla(i, t, legacy=True, root=r))]


def has_body_to_one(t):
    return "to_one_inside_body" in rel.features(t)


def check_case(case, fenced=True):
    from odata_query import exceptions
    t = from_json(case["term"])
    inst = case["inst"]
    text = printer.render(t)
    graph = rel.Graph(inst)
    root = case.get("root", "Item")
    verdicts = {it["id"]: rel.verdict(t, graph, it, root) for it in inst[rel.TABLE_KEY[root]]}
    stats = {"decided": sum(1 for v in verdicts.values() if v[0]), "undecided": sum(1 for v in verdicts.values() if not v[0])}
    case["_stats"] = stats
    fences = known_ids(PROPERTY_ID) if fenced else set()
    results = {}
    for name, fn in BACKENDS:
        if name.startswith("sqlalchemy") and "A5" in fences and has_body_to_one(t):
            stats["excluded_by_known_finding"] = stats.get("excluded_by_known_finding", 0) + 1
            continue
        if name.startswith("sqlalchemy") and "A8" in fences and rel.same_model_twice(t, root):
            stats["excluded_by_known_finding"] = stats.get("excluded_by_known_finding", 0) + 1
            continue
        try:
            ids = fn(inst, text, root)
        except exceptions.ODataException as e:
            return ("%s:refused:%s" % (name.split("-")[0], type(e).__name__), "%s %r -> %s: %s" % (name, text, type(e).__name__, e))
        except Exception as e:
            return ("%s:foreign:%s@%s" % (name.split("-")[0], type(e).__name__, lib.innermost_frame(e)),
                    "%s %r -> %s: %s" % (name, text, type(e).__name__, str(e)[:300]))
        results[name] = ids
        if len(ids) != len(set(ids)):
            return ("%s:duplicate-parent" % name.split("-")[0], "%s %r -> %r" % (name, text, ids))
        for pid, (decided, sel, notes) in verdicts.items():
            if decided and ((pid in ids) != sel):
                return ("%s:%s" % (name.split("-")[0], "missing-parent" if sel else "extra-parent"),
                        "%s %r: parent %d reference says %s, backend returned %r" % (
                            name, text, pid, "selected" if sel else "not selected", sorted(ids)))
    if "django" in results and "sqlalchemy-select" in results:
        if sorted(results["django"]) != sorted(results["sqlalchemy-select"]):
            return ("orms-disagree", "%r: django=%r sqlalchemy=%r" % (text, sorted(results["django"]),
                                                                      sorted(results["sqlalchemy-select"])))
    if "sqlalchemy-legacy" in results and sorted(results["sqlalchemy-legacy"]) != sorted(results["sqlalchemy-select"]):
        return ("sqlalchemy-styles-disagree", "%r" % text)
    return None


def replay(case):
    return check_case(dict(case), fenced=False)


def signature(case):
    from ..semcheck import skeleton
    t = from_json(case["term"])

    def sk(x):
        k = x[0]
        if k in ("id", "path"):
            segs = rel.segments(x)
            return "/".join(segs[:-1] + ["col"]) if len(segs) > 1 else "col"
        if k == "lit":
            return x[1]
        if k == "lambda":
            return "%s/%s(%s)" % ("/".join(rel.segments(x[1])), x[2], sk(x[4]) if x[4] else "")
        if k in ("bin", "cmp", "bool"):
            return "(%s %s %s)" % (sk(x[2]), x[1] if k != "cmp" or x[1] == "in" else "cmp", sk(x[3]))
        if k == "un":
            return "(%s %s)" % (x[1], sk(x[2]))
        if k == "call":
            return "%s(..)" % x[1]
        if k == "list":
            return "[..]"
        return k
    return sk(t)


def well_formed_rel(t):
    """Shrunk candidates must stay grammatical and inside the relational grammar."""
    from ..terms import wellformed
    if not wellformed(t):
        return False
    if t[0] in ("id", "path", "lit", "bin", "list"):
        return False   # a predicate is required at the top
    return True


def shrink(case, bucket):
    case = {k: v for k, v in case.items() if not k.startswith("_")}
    t = from_json(case["term"])

    def still_t(c):
        if not well_formed_rel(c):
            return False
        try:
            r = check_case(dict(case, term=to_json(c)))
        except Exception:
            return False
        return bool(r) and r[0] == bucket

    def cands(t):
        # only structure-preserving simplifications: replace a boolean combination by one side,
        # drop a `not`, replace a lambda body by one side of its boolean combination
        from ..terms import positions, replace_at
        for p, s in positions(t):
            if s[0] == "bool":
                yield replace_at(t, p, s[2])
                yield replace_at(t, p, s[3])
            if s[0] == "un" and s[1] == "not":
                yield replace_at(t, p, s[2])
    improved = True
    calls = 0
    while improved and calls < 60:
        improved = False
        for c in cands(t):
            calls += 1
            if still_t(c):
                t = c
                improved = True
                break
    case = dict(case, term=to_json(t))
    inst = case["inst"]

    def still_i(i2):
        try:
            r = check_case(dict(case, inst=i2))
        except Exception:
            return False
        return bool(r) and r[0] == bucket

    # drop parts, tag links, then whole items where possible
    for key in ("parts",):
        kept = shr.shrink_list(inst[key], lambda lst: still_i(dict(inst, **{key: lst})), budget=15)
        inst = dict(inst, **{key: kept})
    items = inst["items"]
    for idx in range(len(items) - 1, -1, -1):
        if len(items) <= 1:
            break
        cand_items = items[:idx] + items[idx + 1:]
        gone = items[idx]["id"]
        cand = dict(inst, items=cand_items, parts=[p for p in inst["parts"] if p["item"] != gone])
        if still_i(cand):
            inst = cand
            items = cand_items
    return dict(case, inst=inst)


def nontrivial(t, inst, root="Item"):
    feats = rel.features(t)
    if root != "Item":
        graph = rel.Graph(inst)
        objs = inst[rel.TABLE_KEY[root]]
        if not (feats & {"path"} or any(f.startswith("lambda") for f in feats)):
            return False
        if root == "Owner":
            return any(o.get("org") is None or o.get("region") is None or not graph.many("Owner", o, "items") for o in objs)
        return any(not graph.many("Tag", o, "items") for o in objs)
    if not (feats & {"path"} or any(f.startswith("lambda") for f in feats)):
        return False
    graph = rel.Graph(inst)
    for it in inst["items"]:
        if it.get("owner") is None or not it.get("tags") or not graph.many("Item", it, "parts"):
            return True
        ow = graph.by["Owner"].get(it["owner"])
        if ow is not None and ow.get("org") is None:
            return True
    return False


# ---- exhaustive mini-tier -----------------------------------------------------------------------

def mini_instances():
    """Every shape with <= 2 parents and 0-2 children per parent, for each collection."""
    shapes = list(itertools.product(range(3), repeat=2)) + [(n,) for n in range(3)]
    vals = [0, 2]
    for shape in shapes:
        for combo in itertools.product(vals, repeat=sum(shape)):
            it = iter(combo)
            # parts
            items = [{"id": i + 1, "k": 1, "owner": None, "tags": []} for i in range(len(shape))]
            parts = []
            pid = 1
            for i, n in enumerate(shape):
                for _ in range(n):
                    parts.append({"id": pid, "item": i + 1, "n": next(it), "label": "a"})
                    pid += 1
            yield ("parts", {"regions": [], "orgs": [], "owners": [], "tags": [], "items": items, "parts": parts})
        for combo in itertools.product(vals, repeat=2):
            # tags shared between parents: parent i gets the first shape[i] tags
            tags = [{"id": j + 1, "label": "a", "n": combo[j]} for j in range(2)]
            items = [{"id": i + 1, "k": 1, "owner": None, "tags": list(range(1, n + 1))} for i, n in enumerate(shape)]
            yield ("tags", {"regions": [], "orgs": [], "owners": [], "tags": tags, "items": items, "parts": []})


def mini_filters(coll):
    body = ("cmp", "gt", ("path", ("id", "x", ()), "n"), ("lit", "int", "1"))
    owner = ("id", coll, ())
    any0 = ("lambda", owner, "any", None, None)
    anyp = ("lambda", owner, "any", "x", body)
    allp = ("lambda", owner, "all", "x", body)
    return [any0, anyp, allp, ("un", "not", any0), ("un", "not", allp), ("un", "not", anyp),
            ("bool", "or", allp, ("cmp", "eq", ("id", "k", ()), ("lit", "int", "0"))),
            ("bool", "and", anyp, ("un", "not", allp))]


def plan(tier, seed, scale):
    K = 16
    tasks = [{"name": "mini-%d" % i, "kind": "mini", "i": i, "k": 4} for i in range(4)]
    total = int((16000 if tier == "quick" else 300000) * scale)
    for i in range(K):
        tasks.append({"name": "rand-%d" % i, "kind": "rand", "n": max(total // K, 5), "shard": i,
                      "depth": 2 if tier == "quick" else 3})
    return tasks


def run_task(task, seed, acc):
    def one(case):
        t = from_json(case["term"])
        r = check_case(case)
        stats = case.pop("_stats", {})
        nt = nontrivial(t, case["inst"], case.get("root", "Item")) and stats.get("decided", 0) >= 1
        acc.cls("root_" + case.get("root", "Item"))
        acc.case(key=digest([case["term"], case["inst"], case.get("root", "Item")]), nontrivial=nt, n=3,
                 sample={"filter": printer.render(t), "items": len(case["inst"]["items"]),
                         "parts": len(case["inst"]["parts"]), "owners": len(case["inst"]["owners"])})
        for f in rel.features(t):
            acc.cls(f)
        acc.cls("parents_decided", stats.get("decided", 0))
        acc.cls("parents_undecided", stats.get("undecided", 0))
        acc.cls("backends_excluded_by_known_finding", stats.get("excluded_by_known_finding", 0))
        if r:
            acc.fail(r[0], case, r[1])

    if task["kind"] == "mini":
        idx = 0
        for coll, inst in mini_instances():
            for f in mini_filters(coll):
                idx += 1
                if idx % task["k"] == task["i"]:
                    one({"term": to_json(f), "inst": inst})
        acc.extra["exhaustive"] = True
        return
    c = cfg()
    strat = st.sampled_from(["Item", "Item", "Item", "Owner", "Owner", "Tag"]).flatmap(
        lambda root: st.tuples(rel.rel_pred(task["depth"], c, root), rel.instances(), st.just(root)))

    def fn(p):
        t, inst, root = p
        if not inst[rel.TABLE_KEY[root]]:
            return
        one({"term": to_json(t), "inst": inst, "root": root})

    hyp_run(strat, fn, task["n"], seed * 1000 + task["shard"])
