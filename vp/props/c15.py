"""C15 - shorthands conjoin the filter with the incoming query and leave the host intact."""
import json
import os
import subprocess
import sys

from hypothesis import strategies as st

from .. import db_orm, lib, printer, relational as rel
from ..runner import REPO, digest, hyp_run, known_ids
from ..terms import from_json, to_json, walk

PROPERTY_ID = "C15"
RULE = ("base queries (SQLAlchemy: select(Item), .where, .join(Item.owner), .outerjoin(Item.owner), "
        ".join(Item.parts), .join(Item.tags), .order_by, combinations, their legacy session.query twins, Core "
        "select(table) with where/order; Django: Manager, .all(), .filter, .exclude, .order_by, .annotate, "
        ".annotate+filter, .select_related, .distinct) x filters with and without navigation (relationship already "
        "joined by the base, or another) x generated database instances. Oracle (metamorphic): as an ordered "
        "multiset rows(apply(base, f)) = rows(base) restricted to the primary keys of rows(apply(unfiltered, f)); "
        "base annotations are still selectable with equal values; a relationship the base already joins appears "
        "once in the compiled FROM clause. Registry histories (exhaustive): {use sqlalchemy.func.<n>, import the "
        "backend, use again} and {import, use} in fresh processes for the nine names functions_ext defines plus "
        "controls; snapshots (class, SQL text, type) must be equal. Non-trivial: base is not the unfiltered query "
        "and the filter changes the result; distinct by (base, filter, instance)."
        " SQLAlchemy: the number of JOINs in the FROM clause of apply(base, f) must not exceed the base's joins plus the to-one hops f navigates. Django bases include a restricting custom manager and a related manager; SQLAlchemy bases include joins on a relationship key that another model also has (Item.home / Owner.home), in both directions (base joined on Item.home, or on Owner.home reached through Item.owner).")
ASSUMPTIONS = ["without an ORDER BY on the base the comparison is on multisets; with one it is on sequences",
               "SQLite is the only engine"]

# ---- SQLAlchemy bases -----------------------------------------------------------------------------


def sa_bases(S):
    sa = S.sa
    I, O = S.Item, S.Owner
    T = I.__table__
    out = [
        ("select", "orm", lambda: sa.select(I), False),
        ("where", "orm", lambda: sa.select(I).where(I.k >= 0), False),
        ("where2", "orm", lambda: sa.select(I).where(sa.or_(I.i1 > 0, I.i1.is_(None))).where(I.k < 3), False),
        ("join-owner", "orm", lambda: sa.select(I).join(I.owner), False),
        ("outerjoin-owner", "orm", lambda: sa.select(I).outerjoin(I.owner), False),
        ("join-owner-explicit", "orm", lambda: sa.select(I).join(O, I.owner_id == O.id), False),
        ("join-home", "orm", lambda: sa.select(I).join(I.home), False),
        ("outerjoin-co-owner", "orm", lambda: sa.select(I).outerjoin(I.co_owner), False),
        ("legacy-outerjoin-co-owner", "legacy", lambda: S.session.query(I).outerjoin(I.co_owner), False),
        ("legacy-join-home", "legacy", lambda: S.session.query(I).join(I.home), False),
        # joined on a relationship of ANOTHER model (Owner.home -> Org) whose key the root model also has (Item.home -> Region)
        ("join-owner-ownerhome", "orm", lambda: sa.select(I).join(I.owner).outerjoin(O.home), False),
        ("legacy-outerjoin-owner-ownerhome", "legacy", lambda: S.session.query(I).outerjoin(I.owner).outerjoin(O.home), False),
        ("join-owner-region", "orm", lambda: sa.select(I).join(I.owner).join(O.region), False),
        ("outerjoin-owner-region", "orm", lambda: sa.select(I).outerjoin(I.owner).outerjoin(O.region), False),
        ("join-owner-where", "orm", lambda: sa.select(I).join(I.owner).where(O.rank >= 0), False),
        ("join-parts", "orm", lambda: sa.select(I).join(I.parts), False),
        ("join-tags", "orm", lambda: sa.select(I).join(I.tags), False),
        ("order", "orm", lambda: sa.select(I).order_by(I.k.desc(), I.id), True),
        ("join-owner-order", "orm", lambda: sa.select(I).join(I.owner).order_by(O.rank, I.id.desc()), True),
        ("extra-column", "orm-rows", lambda: sa.select(I, (I.k + 10).label("z")).order_by(I.k, I.id), True),
        ("extra-column-where", "orm-rows", lambda: sa.select(I, sa.func.coalesce(I.s1, "-").label("z")).where(I.k >= 0), False),
        ("legacy", "legacy", lambda: S.session.query(I), False),
        ("legacy-filter", "legacy", lambda: S.session.query(I).filter(I.k >= 0), False),
        ("legacy-join-owner", "legacy", lambda: S.session.query(I).join(I.owner), False),
        ("legacy-join-parts", "legacy", lambda: S.session.query(I).join(I.parts), False),
        ("legacy-order", "legacy", lambda: S.session.query(I).order_by(I.k.desc(), I.id), True),
        ("core", "core", lambda: sa.select(T), False),
        ("core-where", "core", lambda: sa.select(T).where(T.c.k >= 0), False),
        ("core-order", "core", lambda: sa.select(T).where(T.c.k < 3).order_by(T.c.k.desc(), T.c.id), True),
    ]
    return out


def sa_rows(S, kind, q):
    if kind == "orm-rows":
        return [(r[0].id, r[1]) for r in S.session.execute(q).all()]
    if kind == "orm":
        return [o.id for o in S.session.execute(q).scalars().all()]
    if kind == "legacy":
        return [o.id for o in q.all()]
    return [r.id for r in S.conn.execute(q).all()]


def sa_apply(kind, q, text):
    from odata_query.sqlalchemy import apply_odata_core, apply_odata_query
    if kind == "core":
        return apply_odata_core(q, text)
    return apply_odata_query(q, text)


def dj_bases(M):
    from django.db.models import F
    I = M.Item
    return [
        ("manager", lambda: I.objects, False, None),
        ("all", lambda: I.objects.all(), False, None),
        ("filter", lambda: I.objects.filter(k__gte=0), False, None),
        ("exclude", lambda: I.objects.exclude(k=1), False, None),
        ("order", lambda: I.objects.order_by("-k", "id"), True, None),
        ("annotate", lambda: I.objects.annotate(z=F("k") + 10), False, "z"),
        ("annotate-filter", lambda: I.objects.annotate(z=F("k") * 2).filter(z__gte=0).order_by("z", "id"), True, "z"),
        ("select-related", lambda: I.objects.select_related("owner"), False, None),
        ("filter-owner", lambda: I.objects.filter(owner__rank__gte=0), False, None),
        ("filter-parts", lambda: I.objects.filter(parts__n__gte=0), False, None),
        ("distinct", lambda: I.objects.filter(parts__n__gte=0).distinct(), False, None),
        ("custom-manager", lambda: I.positive, True, None),
        ("related-manager", lambda: _first_owner(M).items if _first_owner(M) is not None else I.objects.none(), False, None),
    ]


def _first_owner(M):
    return M.Owner.objects.order_by("id").first()


def restrict(base_rows, keep):
    return [r for r in base_rows if (r[0] if isinstance(r, tuple) else r) in keep]


def navigates(t):
    return any(x[0] in ("path", "lambda") or (x[0] == "id" and x[1] in ("owner", "parts", "tags", "home", "region", "org", "items")) for x in walk(t))


def needed_joins(t):
    """Number of distinct to-one relationship hops the filter navigates outside lambda bodies."""
    hops = set()

    def go(x):
        if x[0] == "lambda":
            segs = rel.segments(x[1])
            for i in range(1, len(segs)):
                hops.add(tuple(segs[:i]))
            return
        if x[0] == "path":
            segs = rel.segments(x)
            for i in range(1, len(segs)):
                hops.add(tuple(segs[:i]))
            return
        from ..terms import children
        for c in children(x):
            go(c)
    go(t)
    return len(hops)


def uses_body_to_one(t):
    return "to_one_inside_body" in rel.features(t)


def check_case(case, fenced=True):
    from odata_query import exceptions
    t = from_json(case["term"])
    text = printer.render(t)
    inst = case["inst"]
    fences = known_ids(PROPERTY_ID) if fenced else set()
    stats = case.setdefault("_stats", {"changed": 0, "cells": 0})
    # ---- SQLAlchemy ----
    a8 = ("A8" in known_ids("C04")) and rel.same_model_twice(t, "Item")
    if a8:
        stats["excluded_a8"] = stats.get("excluded_a8", 0) + 1
    if not a8 and not (("A5" in fences or "A5" in known_ids("C04")) and uses_body_to_one(t)):
        S = db_orm.sqlalchemy_load(inst)
        bases = sa_bases(S)
        keep = {}
        for name, kind, mk, ordered in bases:
            if case.get("base") and case["base"] != "sa:" + name:
                continue
            if kind == "core" and navigates(t):
                continue   # Core documents that it cannot navigate (NotImplementedError): outside this cell
            if "home" in name and "A8" in known_ids("C04") and any(
                    m == "Region" and p != ("home",) for p, m in rel.to_one_hops(t, "Item").items()):
                stats["excluded_a8"] = stats.get("excluded_a8", 0) + 1
                continue
            if "ownerhome" in name and "A8" in known_ids("C04") and any(m == "Org" for m in rel.to_one_hops(t, "Item").values()):
                stats["excluded_a8"] = stats.get("excluded_a8", 0) + 1
                continue   # the base joins Org through Owner.home, the filter through Owner.org (A8)
            if "co-owner" in name and "A8" in known_ids("C04") and any(m == "Country" for m in rel.to_one_hops(t, "Item").values()):
                stats["excluded_a8"] = stats.get("excluded_a8", 0) + 1
                continue   # the base joins Country through Item.co_owner, the filter through Region.country (A8)
            if "region" in name and "A8" in known_ids("C04") and any(
                    m == "Region" and p != ("owner", "region") for p, m in rel.to_one_hops(t, "Item").items()):
                stats["excluded_a8"] = stats.get("excluded_a8", 0) + 1
                continue   # the base joins Region through Owner.region, the filter through Org.region (A8)
            S.session.expunge_all()
            try:
                unf = "core" if kind == "core" else ("legacy" if kind == "legacy" else "orm")
                kind_sql = "orm" if kind == "orm-rows" else kind
                if unf not in keep:
                    u = {"orm": lambda: S.sa.select(S.Item), "legacy": lambda: S.session.query(S.Item),
                         "core": lambda: S.sa.select(S.Item.__table__)}[unf]()
                    keep[unf] = set(sa_rows(S, unf, sa_apply(unf, u, text)))
                base_rows = sa_rows(S, kind, mk())
                applied = sa_apply(kind, mk(), text)
                got = sa_rows(S, kind, applied)
            except exceptions.ODataException as e:
                S.session.rollback()
                return ("sa:%s:refused:%s" % (name, type(e).__name__), "%r: %s" % (text, e))
            except Exception as e:
                S.session.rollback()
                return ("sa:%s:exception:%s" % (name, type(e).__name__), "%r -> %s: %s" % (text, type(e).__name__, str(e)[:300]))
            exp = restrict(base_rows, keep[unf])
            stats["cells"] += 1
            if exp != base_rows:
                stats["changed"] += 1
            if (got != exp) if ordered else (sorted(got) != sorted(exp)):
                return ("sa:%s:not-a-restriction-of-the-base" % name,
                        "%r on base %s: base rows %r, filter keeps %r, expected %r, got %r" % (
                            text, name, base_rows, sorted(keep[unf]), exp, got))
            if kind != "core":
                sql = str(applied.statement.compile(S.engine)) if kind == "legacy" else str(applied.compile(S.engine))
                base_q = mk()
                base_sql = str(base_q.statement.compile(S.engine)) if kind == "legacy" else str(base_q.compile(S.engine))
                outer = sql.upper().split(" WHERE ")[0]
                n_join = outer.count(" JOIN ")
                allowed = base_sql.upper().split(" WHERE ")[0].count(" JOIN ") + needed_joins(t)
                if "owner" in name and outer.count("JOIN OWNER ") > 1:
                    return ("sa:%s:relationship-joined-twice" % name, "%r: %s" % (text, sql))
                if n_join > allowed:
                    return ("sa:%s:more-joins-than-the-filter-needs" % name,
                            "%r: %d joins in the FROM clause, base has %d and the filter navigates %d to-one relationships: %s" % (
                                text, n_join, allowed - needed_joins(t), needed_joins(t), sql))
    # ---- Django ----
    M = db_orm.django_load(inst)
    from odata_query.django import apply_odata_query as dj_apply
    try:
        keep_dj = set(dj_apply(M.Item.objects.all(), text).values_list("id", flat=True))
    except Exception as e:
        return ("dj:unfiltered:exception:%s" % type(e).__name__, "%r: %s" % (text, str(e)[:300]))
    for name, mk, ordered, ann in dj_bases(M):
        if case.get("base") and case["base"] != "dj:" + name:
            continue
        fields = ("id", ann) if ann else ("id",)
        try:
            base_rows = list(mk().values_list(*fields))
            got = list(dj_apply(mk(), text).values_list(*fields))
        except exceptions.ODataException as e:
            return ("dj:%s:refused:%s" % (name, type(e).__name__), "%r: %s" % (text, e))
        except Exception as e:
            return ("dj:%s:exception:%s" % (name, type(e).__name__), "%r -> %s: %s" % (text, type(e).__name__, str(e)[:300]))
        exp = restrict(base_rows, keep_dj)
        stats["cells"] += 1
        if exp != base_rows:
            stats["changed"] += 1
        if (got != exp) if ordered else (sorted(got) != sorted(exp)):
            return ("dj:%s:not-a-restriction-of-the-base" % name,
                    "%r on base %s: base rows %r, filter keeps %r, expected %r, got %r" % (
                        text, name, base_rows, sorted(keep_dj), exp, got))
    return None


def replay(case):
    if case.get("registry"):
        return registry_check()
    return check_case(dict(case), fenced=False)


def signature(case):
    from .c04 import signature as sig4
    if "term" not in case:
        return ""
    return sig4(case)


def shrink(case, bucket):
    if "term" not in case:
        return case
    case = {k: v for k, v in case.items() if not k.startswith("_")}
    parts = bucket.split(":")
    if parts[0] in ("sa", "dj") and len(parts) > 1:
        case["base"] = parts[0] + ":" + parts[1]
    from .c04 import shrink as sh4
    # reuse C04's structural shrinker with this module's oracle
    import types
    return _shrink_with(case, bucket)


def _shrink_with(case, bucket):
    from .. import shrink as shr
    from ..terms import positions, replace_at
    t = from_json(case["term"])

    def still(c, inst=None):
        try:
            r = check_case(dict(case, term=to_json(c), inst=inst or case["inst"]))
        except Exception:
            return False
        return bool(r) and r[0] == bucket

    improved = True
    calls = 0
    while improved and calls < 40:
        improved = False
        for p, s in positions(t):
            cands = []
            if s[0] == "bool":
                cands = [s[2], s[3]]
            elif s[0] == "un" and s[1] == "not":
                cands = [s[2]]
            for c in cands:
                calls += 1
                t2 = replace_at(t, p, c)
                if t2[0] in ("cmp", "bool", "un", "lambda", "call") and still(t2):
                    t = t2
                    improved = True
                    break
            if improved:
                break
    inst = case["inst"]
    parts = shr.shrink_list(inst["parts"], lambda lst: still(t, dict(inst, parts=lst)), budget=10)
    inst = dict(inst, parts=parts)
    return dict(case, term=to_json(t), inst=inst)


# ---- registry histories ------------------------------------------------------------------------

REG_CHILD = r'''
import sys, json
sys.path.insert(0, %(repo)r)
import sqlalchemy as sa
from sqlalchemy import func, column, String, Integer
NAMES = ["strpos", "substr", "lower", "upper", "ltrim", "rtrim", "ceil", "floor", "round", "coalesce", "max", "char_length", "concat", "now"]
def snap():
    out = {}
    for n in NAMES:
        args = () if n == "now" else ((column("x", String), "a") if n in ("strpos", "concat", "coalesce") else (column("x", String),))
        e = getattr(func, n)(*args)
        from sqlalchemy.dialects import sqlite, postgresql
        out[n] = [type(e).__module__ + "." + type(e).__name__, str(e), repr(e.type),
                  str(e.compile(dialect=sqlite.dialect())), str(e.compile(dialect=postgresql.dialect()))]
    return out
history = %(history)r
res = {}
if history == "use-import-use":
    res["before"] = snap()
    import odata_query.sqlalchemy
    res["after"] = snap()
else:
    import odata_query.sqlalchemy
    res["after"] = snap()
print(json.dumps(res))
'''


def registry_check():
    results = {}
    for history in ("use-import-use", "import-use"):
        env = dict(os.environ)
        env.pop("PYTHONPATH", None)
        p = subprocess.run([sys.executable, "-c", REG_CHILD % {"repo": REPO, "history": history}], env=env,
                           stdout=subprocess.PIPE, stderr=subprocess.PIPE, text=True)
        if p.returncode != 0:
            return ("registry:child-failed", p.stderr[-400:])
        results[history] = json.loads(p.stdout.strip().splitlines()[-1])
    before = results["use-import-use"]["before"]
    for label, snap in (("after import (same process)", results["use-import-use"]["after"]),
                        ("import first", results["import-use"]["after"])):
        for n, v in snap.items():
            if v != before[n]:
                return ("registry:func-changed:" + n, "sqlalchemy.func.%s before import: %r, %s: %r" % (n, before[n], label, v))
    return None


SCALAR_FILTERS = [
    ("cmp", "ge", ("id", "k", ()), ("lit", "int", "1")),
    ("cmp", "eq", ("id", "i1", ()), ("lit", "null", "")),
    ("bool", "or", ("cmp", "lt", ("id", "k", ()), ("lit", "int", "1")), ("cmp", "eq", ("id", "s1", ()), ("lit", "str", "a"))),
]


def plan(tier, seed, scale):
    K = 16
    tasks = [{"name": "registry", "kind": "registry"}]
    total = int((1600 if tier == "quick" else 20000) * scale)
    for i in range(K):
        tasks.append({"name": "rand-%d" % i, "kind": "rand", "n": max(total // K, 3), "shard": i})
    return tasks


def run_task(task, seed, acc):
    if task["kind"] == "registry":
        r = registry_check()
        acc.case(key="registry-use-import-use", nontrivial=True, n=14, sample={"registry_histories": ["use-import-use", "import-use"], "names": 14})
        acc.case(key="registry-import-use", nontrivial=True, n=14)
        acc.extra["registry_exhaustive"] = True
        if r:
            acc.fail(r[0], {"registry": True}, r[1])
        return
    cfg = rel.RelCfg(body_to_one=False)
    strat = st.tuples(st.one_of(rel.rel_pred(1, cfg), rel.rel_pred(2, cfg), st.sampled_from(SCALAR_FILTERS)),
                      rel.instances())

    def one(p):
        t, inst = p
        case = {"term": to_json(t), "inst": inst}
        r = check_case(case)
        stats = case.pop("_stats", {"changed": 0, "cells": 0})
        feats = rel.features(t)
        acc.case(key=digest([case["term"], inst]), nontrivial=stats["changed"] > 0, n=max(stats["cells"], 1),
                 sample={"filter": printer.render(t), "bases": stats["cells"], "bases_where_filter_changes_result": stats["changed"]})
        acc.cls("base_cells", stats["cells"])
        acc.cls("base_cells_where_filter_changes_result", stats["changed"])
        if "path" in feats:
            acc.cls("filter_navigates")
        if r:
            acc.fail(r[0], case, r[1])

    hyp_run(strat, one, task["n"], seed * 1000 + task["shard"])
