"""C06 - every literal and identifier is recognised as its own kind with its exact value."""
import itertools

from hypothesis import strategies as st

from .. import gen_lex, lib, shrink as shr
from ..runner import digest, hyp_run

PROPERTY_ID = "C06"
RULE = ("literal spellings generated per ABNF kind (integers with sign and 1-30 digits; decimals with "
        "fraction/exponent/both; booleans and null in any letter case; strings over arbitrary Unicode "
        "with doubled quotes; GUIDs in mixed case; valid calendar dates 1000-9999 at field boundaries; "
        "times hh:mm:ss[.f{1,12}]; date-times with optional seconds, fraction, Z or +-hh:mm in both "
        "letter cases; durations over every subset of Y M D H M S[.f] with sign; quote-free geography "
        "WKT) and identifiers [_a-zA-Z]\\w* with dotted namespaces incl. a fixed list and random "
        "combinations that embed keywords; each embedded in 8 expression contexts. Oracle: the node at "
        "the hole has the generated kind, .val denotes the source's value under the harness's own value "
        "function, .py_val equals the independently computed value (durations: 365.25-day year, "
        "30.44-day month, tolerance 1 us + float rounding). Exhaustive: all 63 duration part subsets x "
        "sign x contexts and every keyword x suffix/prefix identifier. Non-trivial: everything except the "
        "plain spellings; distinct by source text.")
ASSUMPTIONS = ["domain = literals well-formed per the OData ABNF restricted to what Python's date types can hold "
               "(years 1000-9999, fractions truncated to microseconds)",
               "Y and M duration parts are the library's documented extension"]

NODE_KIND = {"int": "Integer", "float": "Float", "bool": "Boolean", "null": "Null", "str": "String",
             "guid": "GUID", "date": "Date", "time": "Time", "datetime": "DateTime",
             "duration": "Duration", "geo": "Geography", "id": "Identifier"}

# (template, extractor on the library AST, kinds it applies to)
ARITH = ("int", "float", "date", "time", "datetime", "duration")
CONTEXTS = [
    ("{}", lambda a: a, None),
    ("x eq {}", lambda a: a.right, None),
    ("{} eq x", lambda a: a.left, None),
    ("x in ({}, {})", lambda a: a.right.val[1], None),
    ("ns.f({})", lambda a: a.args[0], None),
    ("( {} )", lambda a: a, None),
    ("{} add 1", lambda a: a.left, ARITH + ("id",)),
    ("1 sub {}", lambda a: a.right, ARITH + ("id",)),
    ("c/any(v: v eq {})", lambda a: a.lambda_.expression.right, None),
    ("not ({} ne y) and z le {}", lambda a: a.right.right, None),
    ("{}/seg/leaf eq 1", lambda a: a.left.owner.owner, ("id",)),
    ("{}/coll/items/any(v: v gt 0)", lambda a: a.owner.owner.owner, ("id",)),
    ("{}/leaf", lambda a: a.owner, ("id",)),
]


def source_of(kind, text):
    if kind == "str":
        return "'" + text.replace("'", "''") + "'"
    if kind == "geo":
        return "geography'" + text + "'"
    if kind == "duration":
        return "duration'" + text + "'"
    return text


def check_case(case):
    """case = {"kind", "text", "ctx", ["prefix"]}: text is the literal's source spelling (for
    str/geo the content; for duration the part between the quotes); prefix optionally the
    spelling of the `duration`/`geography` keyword."""
    kind, text, ctx = case["kind"], case["text"], case["ctx"]
    tmpl, extract, _ = CONTEXTS[ctx]
    src = source_of(kind, text)
    if case.get("prefix"):
        src = case["prefix"] + src[src.index("'"):]
    full = tmpl.replace("{}", src)
    try:
        ast = lib.parse(full)
    except Exception as e:
        return ("%s:rejected:%s" % (kind, type(e).__name__), "%r -> %s: %s" % (full, type(e).__name__, str(e)[:200]))
    try:
        node = extract(ast)
    except Exception as e:
        return ("%s:context-structure" % kind, "%r parsed to %r (hole not where expected: %s)" % (full, ast, e))
    got_kind = type(node).__name__
    if got_kind != NODE_KIND[kind]:
        return ("%s:wrong-kind:%s" % (kind, got_kind), "%r: hole is %r" % (full, node))
    if kind == "id":
        name, ns = case["name"], tuple(case["ns"])
        if node.name != name or tuple(node.namespace) != ns:
            return ("id:wrong-split", "%r: got name=%r namespace=%r expected %r %r" % (full, node.name, node.namespace, name, ns))
        return None
    if kind == "null":
        if node.py_val is not None:
            return ("null:py_val", "%r" % (node.py_val,))
        return None
    exp = gen_lex.value_of(kind, text)
    # .val denotes the source's value
    try:
        val_value = gen_lex.value_of(kind, node.val)
    except Exception as e:
        return ("%s:val-unreadable" % kind, "%r: .val=%r is not a spelling of the kind (%s)" % (full, node.val, e))
    if not gen_lex.same_value(kind, val_value, exp):
        return ("%s:val-differs" % kind, "%r: .val=%r denotes %r, source denotes %r" % (full, node.val, val_value, exp))
    if kind == "geo":
        w = node.wkt()
        if w != exp:
            return ("geo:wkt", "%r: wkt()=%r" % (full, w))
        return None
    try:
        pv = node.py_val
    except Exception as e:
        return ("%s:py_val-raises:%s" % (kind, type(e).__name__), "%r: py_val raised %s: %s" % (full, type(e).__name__, e))
    if kind == "duration":
        import datetime as dt
        if not isinstance(pv, dt.timedelta) or not gen_lex.duration_close(pv, exp, text):
            return ("duration:py_val", "%r: py_val=%r expected %s s" % (full, pv, float(exp)))
        return None
    if type(pv) is not type(exp) and not (kind == "datetime"):
        return ("%s:py_val-type" % kind, "%r: py_val=%r (%s)" % (full, pv, type(pv).__name__))
    if not gen_lex.same_value(kind, pv, exp):
        return ("%s:py_val" % kind, "%r: py_val=%r expected %r" % (full, pv, exp))
    return None


def replay(case):
    return check_case(case)


def shrink(case, bucket):
    if case["kind"] != "str":
        best = dict(case)
        for ctx in range(len(CONTEXTS)):
            c = dict(case, ctx=ctx)
            if CONTEXTS[ctx][2] is not None and case["kind"] not in CONTEXTS[ctx][2]:
                continue
            r = check_case(c)
            if r and r[0] == bucket:
                return c
        return best

    def still(s):
        r = check_case(dict(case, text=s))
        return bool(r) and r[0] == bucket

    return dict(case, text=shr.shrink_text(case["text"], still, budget=200))


PLAIN = {"int": ["1", "42"], "float": ["1.5"], "bool": ["true", "false"], "null": ["null"],
         "date": ["2020-01-01"], "time": ["12:00:00"], "datetime": ["2020-01-01T00:00:00Z"],
         "duration": ["P1D", "PT1H"], "str": ["a", "abc"], "id": ["a", "name"]}


def nontrivial(case):
    return case["text"] not in PLAIN.get(case["kind"], ())


GENS = {
    "int": gen_lex.ints, "float": gen_lex.floats, "bool": gen_lex.bools, "null": gen_lex.nulls,
    "str": gen_lex.str_contents, "guid": gen_lex.guids, "date": gen_lex.dates, "time": gen_lex.times,
    "datetime": gen_lex.datetimes, "duration": gen_lex.duration_sources, "geo": gen_lex.geos,
}


def ctxs_for(kind):
    return [i for i, c in enumerate(CONTEXTS) if c[2] is None or kind in c[2]]


@st.composite
def cases(draw):
    kind = draw(st.sampled_from(list(GENS) + ["id", "id", "id", "str", "datetime", "duration"]))
    ctx = draw(st.sampled_from(ctxs_for(kind)))
    if kind == "id":
        text, name, ns = draw(gen_lex.identifiers())
        return {"kind": "id", "text": text, "name": name, "ns": list(ns), "ctx": ctx}
    case = {"kind": kind, "text": draw(GENS[kind]()), "ctx": ctx}
    if kind in ("duration", "geo") and draw(st.booleans()):
        case["prefix"] = draw(gen_lex.anycase("duration" if kind == "duration" else "geography"))
    return case


def exhaustive_cases():
    # every subset of duration parts x sign x context
    parts = [("1", "Y"), ("2", "M"), ("3", "D"), ("4", "H"), ("5", "M"), ("6.5", "S")]
    for mask in range(1, 64):
        for sign in ("", "+", "-"):
            t = sign + "P"
            for i in range(3):
                if mask & (1 << i):
                    t += parts[i][0] + parts[i][1]
            if mask & 56:
                t += "T"
                for i in range(3, 6):
                    if mask & (1 << i):
                        t += parts[i][0] + parts[i][1]
            for ctx in ctxs_for("duration"):
                yield {"kind": "duration", "text": t, "ctx": ctx}
    # every optional part of date-times
    for secs in ("", ":07", ":07.5", ":07.123456789012"):
        for off in ("", "Z", "z", "+01:30", "-11:00"):
            for T in ("T", "t"):
                for ctx in ctxs_for("datetime"):
                    yield {"kind": "datetime", "text": "2021-12-31" + T + "23:59" + secs + off, "ctx": ctx}
    # every keyword as prefix / suffix / infix of an identifier, and in a namespace position
    for kw in gen_lex.KEYWORDS:
        for variant in (kw + "x", kw + "_", kw + "1", kw.upper() + "x", kw.capitalize() + "s", "x" + kw,
                        "_" + kw, "a_" + kw + "_b", kw + kw):
            for ns in ((), ("ns",), (kw + "s", "q")):
                text = ".".join(ns + (variant,))
                for ctx in ctxs_for("id"):
                    yield {"kind": "id", "text": text, "name": variant, "ns": list(ns), "ctx": ctx}
    for name in gen_lex.KEYWORDY:
        for ctx in ctxs_for("id"):
            yield {"kind": "id", "text": name, "name": name, "ns": [], "ctx": ctx}


def plan(tier, seed, scale):
    K = 16
    tasks = [{"name": "exh-%d" % i, "kind": "exh", "i": i, "k": K} for i in range(K)]
    total = int((30000 if tier == "quick" else 1000000) * scale)
    for i in range(K):
        tasks.append({"name": "rand-%d" % i, "kind": "rand", "n": max(total // K, 10), "shard": i})
    return tasks


def run_task(task, seed, acc):
    def one(case):
        r = check_case(case)
        acc.case(key=digest(case), nontrivial=nontrivial(case),
                 sample={"kind": case["kind"], "text": case["text"], "context": CONTEXTS[case["ctx"]][0]})
        acc.cls("kind_" + case["kind"])
        if r:
            acc.fail(r[0], case, r[1])

    if task["kind"] == "exh":
        for idx, case in enumerate(exhaustive_cases()):
            if idx % task["k"] == task["i"]:
                one(case)
        acc.extra["exhaustive"] = True
        return
    hyp_run(cases(), one, task["n"], seed * 1000 + task["shard"])
