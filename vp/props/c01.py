"""C01 - the SQLite WHERE clause selects exactly the rows the OData filter denotes."""
import sqlite3

from hypothesis import strategies as st

from .. import db_sqlite, evalref, gen_typed, lib, printer, semcheck
from ..runner import digest, hyp_run, known_ids
from ..terms import count_ops, from_json, to_json, walk

PROPERTY_ID = "C01"
RULE = ("Bool-typed filters of the SQLite fragment from the typed grammar (fields, all literal kinds of the "
        "column types, add/sub/mul/div/mod, unary minus, eq/ne/lt/le/gt/ge incl. literal-left and field-field, "
        "in-lists, null tests on either side, and/or/not, bare boolean column, boolean functions bare and "
        "compared to true/false, contains/startswith/endswith/length/indexof/substring/tolower/toupper/trim/"
        "concat, year/month/day/hour/minute/date), depth <= 4 (6), printed with minimal, full and redundant "
        "parentheses, x 1-6 rows over the adversarial value domain (NULLs, negatives, zero, empty strings, "
        "strings with ' % _ \\ \" ; --). Oracle: SELECT id FROM item WHERE <emitted clause> on real SQLite vs "
        "the reference evaluator, on decided rows only; an sqlite3 error or a library refusal is a violation. "
        "Non-trivial: >= 2 operator/function nodes and >= 1 decided row; distinct by (filter text, rows)."
        " Plus a value-level sweep: for every arithmetic operator pair in both nestings (and unary minus / indexof / length templates as operands) E and every value v that E takes on a fixed 12-row table, the filter `E eq v` must select exactly the rows where E = v. Rows get 'confuser' strings derived from the literal needles of contains/startswith/endswith (needle embedded, % replaced by text, _ by one character, escape characters dropped). Integer div/mod are decided with truncation / dividend-sign semantics. Every case is followed by metamorphic companions in which one row's own integer values replace the Int columns: that row must fare alike, whatever the reading of div and mod.")
ASSUMPTIONS = [
    "PRAGMA case_sensitive_like=ON (LIKE case folding is an engine setting of the caller)",
    "datetimes are stored as 'YYYY-MM-DD HH:MM:SS' UTC text, dates as 'YYYY-MM-DD'",
    "rows where strict OData null semantics and SQL null propagation disagree are undecided and skipped",
]

F = gen_typed.Fragment(
    "sqlite",
    funcs=gen_typed.STRING_FUNCS + gen_typed.DATE_FUNCS,
    neg=True, bare_bool=True, null_left=True, dt_offsets="all",
)


def fragment():
    """The generated fragment, fenced for the known findings that are still open."""
    k = known_ids(PROPERTY_ID)
    f = gen_typed.Fragment("sqlite", funcs=gen_typed.STRING_FUNCS + gen_typed.DATE_FUNCS, neg=True,
                           bare_bool=True, null_left=True, dt_offsets="all")
    f.fence_like_nonliteral_wild = "S5b" in k
    return f


_REUSED = None


def style_of(case):
    s = case.get("style", "minimal")
    if s == "minimal":
        return printer.Style()
    if s == "full":
        return printer.FullStyle()
    return printer.RandomStyle(case.get("style_seed", 0), mode="minimal", ws=False, case=False, redundant=True)


def check_case(case, fenced=True):
    from odata_query import exceptions
    from odata_query.sql import AstToSqliteSqlVisitor
    t = from_json(case["term"])
    text = printer.render(t, style_of(case))
    try:
        ast = lib.parse(text)
    except Exception as e:
        return ("parse-rejected:" + type(e).__name__, "%r: %s" % (text, e))
    try:
        sql = AstToSqliteSqlVisitor().visit(ast)
    except exceptions.ODataException as e:
        return ("refused:" + type(e).__name__, "%r -> %s: %s" % (text, type(e).__name__, e))
    except Exception as e:
        return ("foreign:" + lib.exc_bucket(e), "%r -> %s: %s" % (text, type(e).__name__, e))
    if not isinstance(sql, str):
        return ("non-string-output", "%r -> %r" % (text, sql))
    # a visitor instance that has already translated other filters gives the same clause
    global _REUSED
    if _REUSED is None:
        _REUSED = AstToSqliteSqlVisitor()
    try:
        sql2 = _REUSED.visit(ast)
    except Exception as e:
        _REUSED = None
        return ("reused-visitor-differs", "%r: a reused visitor raised %s: %s" % (text, type(e).__name__, e))
    if sql2 != sql:
        _REUSED = None
        return ("reused-visitor-differs", "%r: fresh visitor -> %s ; reused visitor -> %s" % (text, sql, sql2))
    db_sqlite.load(case["rows"])
    try:
        ids = db_sqlite.select_ids(sql)
    except sqlite3.Error as e:
        if lib.engine_limit(e):
            case["_stats"] = {"decided": 0, "undecided": 0, "engine_limit": 1}
            return None      # the engine's own depth / size limit: nothing is decided about this filter
        return ("engine-error", "%r -> WHERE %s -> sqlite3: %s" % (text, sql, e))
    bad, stats = semcheck.compare(t, case["rows"], set(ids), fences=(set(known_ids(PROPERTY_ID)) if fenced else set()) | {"int-div-truncates"})
    case["_stats"] = stats
    if bad:
        return (bad[0], "%r -> WHERE %s ; %s" % (text, sql, bad[1]))
    # metamorphic companion: the row's own integer values written as literals must not change the row's fate
    # (needs no reading of div and mod, so it also covers rows on which the reference abstains)
    ran = skipped = 0
    for i, t2 in semcheck.literalised(t, case["rows"], case.get("style_seed", 0)):
        text2 = printer.render(t2, style_of(case))
        try:
            sql_l = AstToSqliteSqlVisitor().visit(lib.parse(text2))
            ids_l = set(db_sqlite.select_ids(sql_l))
        except Exception:
            skipped += 1        # the companion may leave the supported fragment or hit an engine limit: nothing is decided
            continue
        ran += 1
        if ((i + 1) in ids_l) != ((i + 1) in set(ids)):
            return ("literalised-row-differs", "row %d %r: %r -> WHERE %s %s it, but with its integer values as literals %r -> WHERE %s %s it" % (
                i + 1, case["rows"][i], text, sql, "selects" if (i + 1) in set(ids) else "does not select", text2, sql_l,
                "selects" if (i + 1) in ids_l else "does not select"))
    stats["literalised_ran"] = ran
    stats["literalised_skipped"] = skipped
    return None


def replay(case):
    # replays run unfenced: a known finding's own example must still be able to fail
    return check_case(dict(case), fenced=False)


def signature(case):
    return semcheck.skeleton(from_json(case["term"]))


def shrink(case, bucket):
    case = {k: v for k, v in case.items() if not k.startswith("_")}
    return semcheck.shrink_case(case, bucket, fragment(), lambda c: check_case(dict(c)))


def classes_of(t, rows):
    out = []
    cols = {x[1] for x in walk(t) if x[0] == "id"}
    if any(r.get(c) is None for r in rows for c in cols):
        out.append("null_in_referenced_column")
    for x in walk(t):
        if x[0] == "cmp" and x[2][0] == "lit" and x[3][0] != "lit":
            out.append("literal_on_left")
        if x[0] == "bin" and x[3][0] == "bin":
            out.append("right_nested_arithmetic")
        if x[0] == "un" and x[1] == "neg":
            out.append("unary_minus")
        if x[0] == "call" and x[1] in ("contains", "startswith", "endswith"):
            n = x[3][1]
            if n[0] == "lit" and any(c in n[2] for c in "%_'\\"):
                out.append("metachar_in_like_needle")
            if n[0] != "lit":
                out.append("non_literal_like_needle")
        if x[0] == "cmp" and x[1] == "in":
            out.append("in_list")
        if x[0] == "call" and x[1] in gen_typed.DATE_FUNCS:
            out.append("date_function")
        if x[0] == "cmp" and x[1] in ("eq", "ne") and ("lit", "null", "") in (x[2], x[3]):
            out.append("null_test")
    return sorted(set(out))


EXH_LEAVES = {"Int": [("id", "i1", ()), ("lit", "int", "2"), ("id", "i2", ())],
              "Bool": [("cmp", "gt", ("id", "i1", ()), ("lit", "int", "0")), ("id", "b1", ()),
                       ("cmp", "eq", ("id", "s1", ()), ("lit", "str", "a"))]}
EXH_ROWS = [
    {"i1": a, "i2": b, "r1": 0.5, "s1": s, "s2": "a", "b1": bb, "t1": "2020-01-01T00:00:00", "d1": "2020-01-01"}
    for a, b, s, bb in [(1, 2, "a", True), (3, -1, "b", False), (0, 0, "a", None), (-2, 3, None, True),
                        (None, 2, "a", False), (7, None, "", True), (2, 2, "A", False), (10, -7, "a'b", None),
                        (7, 3, "ba", True), (-7, 3, "aa", False), (5, -3, "a", True), (100, 7, "xa", None)]
]


def exhaustive_terms():
    """Every binary operator pair in both nestings over fixed leaves (type-compatible combinations)."""
    ar = ["add", "sub", "mul", "div", "mod"]
    cm = ["eq", "ne", "lt", "le", "gt", "ge"]
    bo = ["and", "or"]
    I = EXH_LEAVES["Int"]
    B = EXH_LEAVES["Bool"]
    # arithmetic in arithmetic, both nestings, under each comparison
    for o1 in ar:
        for o2 in ar:
            for c in cm:
                yield ("cmp", c, ("bin", o1, ("bin", o2, I[0], I[1]), I[2]), ("lit", "int", "3"))
                yield ("cmp", c, ("bin", o1, I[0], ("bin", o2, I[1], I[2])), ("lit", "int", "3"))
                yield ("cmp", c, ("lit", "int", "3"), ("bin", o1, I[0], ("bin", o2, I[1], I[2])))
    # unary minus over / under arithmetic
    for o1 in ar:
        yield ("cmp", "lt", ("un", "neg", ("bin", o1, I[0], I[1])), I[2])
        yield ("cmp", "lt", ("bin", o1, ("un", "neg", I[0]), I[1]), I[2])
        yield ("cmp", "lt", ("bin", o1, I[0], ("un", "neg", I[1])), I[2])
    # boolean operators in both nestings, not over each
    for o1 in bo:
        for o2 in bo:
            yield ("bool", o1, ("bool", o2, B[0], B[1]), B[2])
            yield ("bool", o1, B[0], ("bool", o2, B[1], B[2]))
            yield ("un", "not", ("bool", o1, B[0], ("bool", o2, B[1], B[2])))
            yield ("bool", o1, ("un", "not", B[0]), ("bool", o2, B[1], ("un", "not", B[2])))
    # comparisons of comparisons (boolean-valued operands), both sides
    for c in ("eq", "ne"):
        for c2 in cm:
            yield ("cmp", c, ("cmp", c2, I[0], I[1]), ("lit", "bool", "true"))
            yield ("cmp", c, ("lit", "bool", "false"), ("cmp", c2, I[0], I[1]))
            yield ("cmp", c, ("cmp", c2, I[0], I[1]), ("cmp", c2, I[1], I[2]))


def arithmetic_shapes():
    """Every arithmetic operator pair in both nestings, unary minus over/under each operator,
    indexof/length templates as operands."""
    ar = ["add", "sub", "mul", "div", "mod"]
    a, b, c = EXH_LEAVES["Int"]
    s1, s2 = ("id", "s1", ()), ("id", "s2", ())
    for o1 in ar:
        for o2 in ar:
            yield ("bin", o1, ("bin", o2, a, b), c)
            yield ("bin", o1, a, ("bin", o2, b, c))
        yield ("un", "neg", ("bin", o1, a, b))
        yield ("bin", o1, ("un", "neg", a), b)
        yield ("bin", o1, a, ("un", "neg", b))
        yield ("bin", o1, ("call", "indexof", (), (s1, s2)), b)
        yield ("bin", o1, a, ("call", "indexof", (), (s1, s2)))
        yield ("bin", o1, a, ("call", "length", (), (s1,)))
    yield ("un", "neg", ("call", "indexof", (), (s1, s2)))


def plan(tier, seed, scale):
    K = 16
    tasks = [{"name": "exh", "kind": "exh"}]
    total = int((20000 if tier == "quick" else 130000) * scale)
    for i in range(K):
        tasks.append({"name": "rand-%d" % i, "kind": "rand", "n": max(total // K, 10), "shard": i,
                      "depth": 4 if tier == "quick" else 6})
    return tasks


def excluded(t, rows, Fg):
    """Whole filters fenced off while a known finding is open (none for C01: S5b is fenced per row
    inside the reference evaluator, see evalref._call)."""
    return None


def run_task(task, seed, acc):
    Fg = fragment()

    def one(case):
        t = from_json(case["term"])
        ex = excluded(t, case["rows"], Fg)
        if ex:
            acc.cls("excluded_by_known_finding_" + ex)
            return
        r = check_case(case)
        stats = case.pop("_stats", {"decided": 0, "undecided": 0})
        nt = count_ops(t) >= 2 and stats.get("decided", 0) >= 1
        acc.case(key=digest([printer.render(t, style_of(case)), case["rows"]]), nontrivial=nt,
                 sample={"filter": printer.render(t, style_of(case)), "rows": case["rows"][:2]})
        acc.cls("rows_decided", stats.get("decided", 0))
        acc.cls("rows_undecided", stats.get("undecided", 0))
        acc.cls("rows_selected", stats.get("selected", 0))
        acc.cls("rows_excluded_by_known_finding", stats.get("excluded_by_known_finding", 0))
        acc.cls("filters_beyond_an_engine_limit", stats.get("engine_limit", 0))
        acc.cls("literalised_companions_run", stats.get("literalised_ran", 0))
        acc.cls("literalised_companions_undecided", stats.get("literalised_skipped", 0))
        for c in classes_of(t, case["rows"]):
            acc.cls(c)
        if r:
            acc.fail(r[0], case, r[1])

    if task["kind"] == "exh":
        for t in exhaustive_terms():
            for style in ("minimal", "full"):
                one({"term": to_json(t), "rows": EXH_ROWS, "style": style})
        # value-level sweep: for every arithmetic shape E and every value v it takes on some row,
        # the filter `E eq v` must select exactly the rows where E evaluates to v
        n_val = 0
        for e in arithmetic_shapes():
            vals = set()
            for row in EXH_ROWS:
                c = evalref.Ctx(evalref.row_from_storage(row), "sql", set(), None, {"int-div-truncates"})
                v = evalref.ev(e, c)
                if v is not evalref.U and v is not None and isinstance(v, int):
                    vals.add(v)
            for v in sorted(vals):
                n_val += 1
                one({"term": to_json(("cmp", "eq", e, ("lit", "int", str(v)))), "rows": EXH_ROWS, "style": "minimal"})
        acc.extra["exhaustive"] = True
        acc.extra["value_level_filters"] = n_val
        return
    strat = st.tuples(gen_typed.pred(task["depth"], Fg), gen_typed.rows_strategy(),
                      st.sampled_from(["minimal", "minimal", "full", "redundant"]), st.integers(0, 2 ** 20))

    def fn(tup):
        t, rows, style, sseed = tup
        one({"term": to_json(t), "rows": semcheck.confuse_rows(t, rows, sseed), "style": style, "style_seed": sseed})

    hyp_run(strat, fn, task["n"], seed * 1000 + task["shard"])
