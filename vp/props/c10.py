"""C10 - parsing any string terminates with an AST or a library syntax/function error."""
import itertools
import os
import random
import re
import signal
import subprocess
import sys
import tempfile

from hypothesis import strategies as st

from .. import gen_syntax, printer, shrink as shr
from ..decode import ast_digest
from ..runner import VERIF, digest, hyp_run

PROPERTY_ID = "C10"
RULE = ("(1) exhaustive: every sequence of <= 3 (thorough: <= 4) lexical atoms from a 58-atom "
        "alphabet (one atom per token class, every keyword with and without surrounding blanks, "
        "every punctuation mark, illegal characters); (2) token-level mutations (delete, insert, "
        "swap, duplicate, truncate) of valid filters from the full-grammar generator; (3) Hypothesis "
        "text over full Unicode and over the grammar's own character set; (4) long repetitive inputs "
        "up to 64 KB (paths with 1000..5000 segments, operator chains, nested parentheses, unary "
        "chains, long lists, nested calls, named parameters); (5, thorough) an atheris/libFuzzer "
        "campaign whose target decodes bytes into atom sequences. Oracle: outcome is an AST node "
        "(every reachable field value a node/str/None/list) or one of the four library exceptions "
        "(each an ODataException); re-parsing with fresh instances gives the same outcome. "
        "Non-trivial: >= 2 atoms; distinct by input string."
        " Every short input runs under a 20 s watchdog (inconclusive on expiry, the task gives up after three), so the check terminates even if the parser does not.")
ASSUMPTIONS = ["termination is only bounded: a 120 s watchdog per long input reports 'inconclusive', never a violation"]

ATOMS = [
    # one per literal token class
    "1", "-1", "1.5", "'s'", "true", "null", "2020-01-01", "12:00:00",
    "2020-01-01T00:00:00Z", "duration'P1D'", "123e4567-e89b-12d3-a456-426614174000",
    "geography'POINT(1 2)'",
    # identifiers and function names
    "a", "ns.f", "contains", "now", "length", "geo.length", "substring",
    # keyword operators with and without blanks
    " add ", " sub ", " mul ", " div ", " mod ", " and ", " or ", "not ", " eq ", " ne ",
    " lt ", " le ", " gt ", " ge ", " in ",
    "add", "eq", "and", "or", "not", "in",
    "any", "all",
    # punctuation
    "(", ")", ",", "/", ":", "=", "-", " ", "'", "$", ".", "+", "%27", "\x00", "x=1", "(1,2)",
    # characters that case-fold into ASCII keyword letters under re.IGNORECASE (long s, Kelvin sign, dotted I)
    "(1,2,)", ",)", "f(a,b,)",
    "fal\u017fe", " \u017fub ", "\u017f", "\u212a", "\u0130n", "tr\u00fce", "nu\u217c\u217c",
]

LIB_ERRORS = ("TokenizingException", "ParsingException", "UnknownFunctionException",
              "ArgumentCountException")


class Timeout(BaseException):
    pass


def outcome(s):
    """("node", digest) | ("lib", class, message) | ("bad", bucket, detail)."""
    from odata_query import ast, exceptions
    from odata_query.grammar import ODataLexer, ODataParser
    from .. import lib
    try:
        res = ODataParser().parse(ODataLexer().tokenize(s))
    except Timeout:
        raise
    except exceptions.ODataException as e:
        name = type(e).__name__
        if name not in LIB_ERRORS or not isinstance(e, getattr(exceptions, name)):
            return ("bad", "unexpected-library-exception:" + name, repr(e)[:300])
        return ("lib", name, str(e))
    except RecursionError as e:
        return ("bad", "foreign:RecursionError@" + lib.innermost_frame(e), "RecursionError")
    except Exception as e:
        return ("bad", "foreign:" + lib.exc_bucket(e), "%s: %s" % (type(e).__name__, str(e)[:300]))
    if not isinstance(res, ast._Node):
        return ("bad", "non-node-result:" + type(res).__name__, repr(res)[:300])
    dg, count, ok = ast_digest(res)
    if not ok:
        return ("bad", "malformed-ast", "a field holds a non-node value")
    return ("node", dg)


def check_string(s):
    o1 = outcome(s)
    if o1[0] == "bad":
        return (o1[1], "input=%r -> %s" % (_clip(s), o1[2]))
    o2 = outcome(s)
    if o1 != o2:
        return ("nondeterministic", "input=%r first=%r second=%r" % (_clip(s), o1, o2))
    return None


def _clip(s):
    return s if len(s) < 200 else s[:120] + "...(%d chars)..." % len(s) + s[-40:]


# ---- long repetitive inputs -------------------------------------------------------------

def long_inputs(tier):
    out = []
    for n in ([1000, 3000] if tier == "quick" else [1000, 3000, 5000]):
        out.append(("path-%d" % n, "/".join(["a"] * n) + " eq 1"))
        out.append(("path-lambda-%d" % n, "/".join(["a"] * n) + "/any(x: x eq 1)"))
    out.append(("add-chain", "a" + " add a" * 10000))
    out.append(("and-chain", "a eq 1" + " and a eq 1" * 5900))
    out.append(("or-mixed-chain", "a eq 1" + " or b lt 2 and c ne 3" * 3000))
    out.append(("parens-deep", "(" * 20000 + "a" + ")" * 20000))
    out.append(("parens-unbalanced", "(" * 30000 + "a"))
    out.append(("not-chain", "not " * 15000 + "a"))
    out.append(("neg-chain", "-" * 60000 + "a"))
    out.append(("neg-chain-ws", "- " * 30000 + "a"))
    out.append(("long-list", "a in (" + ",".join(str(i) for i in range(12000)) + ")"))
    out.append(("nested-calls", "tolower(" * 7000 + "a" + ")" * 7000))
    out.append(("nested-lists", "(" + "(1,2)," * 10000 + "3)"))
    out.append(("named-params", "x.f(" + ",".join("p%d=%d" % (i, i) for i in range(6000)) + ")"))
    out.append(("many-args-builtin", "contains(" + ",".join(["a"] * 30000) + ")"))
    out.append(("long-string", "a eq '" + "x''" * 21000 + "'"))
    out.append(("long-ident", "a" * 65000))
    out.append(("dotted-ident", ".".join(["ab"] * 20000) + " eq 1"))
    out.append(("nested-lambdas", "".join("c/any(x%d: " % i for i in range(4000)) + "1 eq 1" + ")" * 4000))
    out.append(("right-nested-parens", "a add (" * 8000 + "a" + ")" * 8000))
    out.append(("in-chain", "a" + " in (1,)" * 8000))
    out.append(("garbage-tail", "a eq 1" + " $" * 30000))
    return out


def run_long(name, s, acc, budget_s=120):
    def on_alarm(signum, frame):
        raise Timeout()
    old = signal.signal(signal.SIGALRM, on_alarm)
    signal.alarm(budget_s)
    try:
        r = check_string(s)
        signal.alarm(0)
    except Timeout:
        signal.alarm(0)
        acc.cls("inconclusive_watchdog")
        acc.notes.append("watchdog expired on %s (%d chars): inconclusive" % (name, len(s)))
        return
    finally:
        signal.signal(signal.SIGALRM, old)
    acc.case(key=digest(s), nontrivial=True, sample={"long_input": name, "chars": len(s)})
    acc.cls("long_inputs")
    if r:
        acc.fail(r[0], {"long": name}, r[1])


# ---- token-level mutation ----------------------------------------------------------------

TOKEN_RE = re.compile(r"'(?:[^']|'')*'|\s+|[A-Za-z_][\w.]*|\d[\w.:+-]*|.", re.S)
INSERTS = ["(", ")", ",", "/", ":", "=", "-", " eq ", " and ", "not ", " in ", "any(", "all(", "'",
           "null", "1", "a", "x:", ")/", "  ", "()", "(,)", "$", "\n", "geo.", "now()", " add ",
           "duration'P", "T", "Z", "''"]


def mutate(text, seed):
    r = random.Random(seed)
    toks = TOKEN_RE.findall(text)
    for _ in range(r.randint(1, 3)):
        if not toks:
            toks = [r.choice(INSERTS)]
            continue
        op = r.randrange(6)
        i = r.randrange(len(toks))
        if op == 0:
            del toks[i]
        elif op == 1:
            toks.insert(i, r.choice(INSERTS))
        elif op == 2:
            j = r.randrange(len(toks))
            toks[i], toks[j] = toks[j], toks[i]
        elif op == 3:
            toks.insert(i, toks[i])
        elif op == 4:
            toks = toks[:i]
        else:
            toks[i] = r.choice(INSERTS)
    return "".join(toks)


GRAMMAR_CHARS = "ab1209 '()/,:=-.+TZPeEtruflnodiv$%_\t\n\u017f\u212a\u0130\u0131"


def replay(case):
    if "long" in case:
        for name, s in long_inputs("thorough"):
            if name == case["long"]:
                return check_string(s)
        return None
    return check_string(case["text"])


def shrink(case, bucket):
    if "long" in case:
        return case

    def still(s):
        r = check_string(s)
        return bool(r) and r[0] == bucket

    return {"text": shr.shrink_text(case["text"], still, budget=300)}


def plan(tier, seed, scale):
    K = 16
    tasks = []
    kmax = 3 if tier == "quick" else 4
    for i in range(K):
        tasks.append({"name": "atoms-%d" % i, "kind": "atoms", "kmax": kmax, "i": i, "k": K})
    n_mut = int((30000 if tier == "quick" else 250000) * scale)
    n_txt = int((20000 if tier == "quick" else 160000) * scale)
    for i in range(K):
        tasks.append({"name": "mut-%d" % i, "kind": "mut", "n": max(n_mut // K, 10), "shard": i})
        tasks.append({"name": "text-%d" % i, "kind": "text", "n": max(n_txt // K, 10), "shard": i})
    longs = long_inputs(tier)
    for j, (name, s) in enumerate(longs):
        tasks.append({"name": "long-" + name, "kind": "long", "long": name, "tier": tier})
    if tier == "thorough":
        for i in range(K):
            tasks.append({"name": "atheris-%d" % i, "kind": "atheris", "shard": i,
                          "runs": int(400000 * scale), "corpus": i % 2 == 1})
    # long tasks first so they overlap with the rest
    tasks.sort(key=lambda t: 0 if t["kind"] == "long" else 1)
    return tasks


class _Watch:
    """Per-input watchdog for the bulk tasks: an input that does not finish within LIMIT seconds
    (normal inputs take < 1 ms) is recorded as *inconclusive* - never as a violation - and the task
    gives up after a few of them so that the check itself always terminates."""
    LIMIT = 20
    MAX_HITS = 3

    def __init__(self, acc):
        self.acc = acc
        self.hits = 0

    def __enter__(self):
        def on_alarm(signum, frame):
            raise Timeout()
        self.old = signal.signal(signal.SIGALRM, on_alarm)
        return self

    def __exit__(self, *a):
        signal.alarm(0)
        signal.signal(signal.SIGALRM, self.old)

    def run(self, fn, s):
        """fn(s), or None if the watchdog expired."""
        if self.hits >= self.MAX_HITS:
            return None
        signal.alarm(self.LIMIT)
        try:
            return fn(s)
        except Timeout:
            self.hits += 1
            self.acc.cls("inconclusive_watchdog")
            self.acc.notes.append("INCONCLUSIVE: parsing %r did not finish within %d s" % (_clip(s), self.LIMIT))
            return None
        finally:
            signal.alarm(0)


def run_task(task, seed, acc):
    with _Watch(acc) as watch:
        _run_task(task, seed, acc, watch)


def _run_task(task, seed, acc, watch):
    kind = task["kind"]
    if kind == "atoms":
        idx = 0
        for k in range(1, task["kmax"] + 1):
            for combo in itertools.product(ATOMS, repeat=k):
                idx += 1
                if idx % task["k"] != task["i"]:
                    continue
                s = "".join(combo)
                o = watch.run(outcome, s)
                if o is None:
                    continue
                acc.case(key=digest(s), nontrivial=k >= 2,
                         sample={"text": s, "outcome": o[:2]} if idx % 20011 == task["i"] else None)
                acc.cls("outcome_" + (o[1] if o[0] == "lib" else o[0]))
                if o[0] == "bad":
                    acc.fail(o[1], {"text": s}, "input=%r -> %s" % (s, o[2]))
                elif idx % 7 == 0:
                    # determinism: re-parse a 1/7 sample of the exhaustive space with fresh instances
                    if outcome(s) != o:
                        acc.fail("nondeterministic", {"text": s}, "input=%r" % s)
        acc.extra["exhaustive"] = True
        acc.extra["atoms"] = len(ATOMS)
        return
    if kind == "long":
        for name, s in long_inputs(task["tier"]):
            if name == task["long"]:
                run_long(name, s, acc)
        return
    if kind == "mut":
        cfg = gen_syntax.Cfg(full_unicode=False)
        strat = st.tuples(gen_syntax.exprs(3, cfg), st.integers(0, 2 ** 30), st.integers(0, 2 ** 30))

        def fn(tr):
            t, sseed, mseed = tr
            base = printer.render(t, printer.RandomStyle(sseed, redundant=True))
            s = mutate(base, mseed)
            r = watch.run(lambda x: check_string(x) or False, s)
            if r is None:
                return
            r = r or None
            acc.case(key=digest(s), nontrivial=len(TOKEN_RE.findall(s)) >= 2,
                     sample={"text": s, "mutated_from": base})
            o = outcome(s) if not r else ("bad",)
            acc.cls("outcome_" + (o[1] if o[0] == "lib" else o[0]))
            if r:
                acc.fail(r[0], {"text": s}, r[1])

        hyp_run(strat, fn, task["n"], seed * 1000 + task["shard"])
        return
    if kind == "text":
        strat = st.one_of(
            st.text(max_size=30),
            st.text(alphabet=GRAMMAR_CHARS, max_size=24),
            st.lists(st.sampled_from(ATOMS), max_size=8).map("".join),
        )

        def fn(s):
            r = watch.run(lambda x: check_string(x) or False, s)
            if r is None:
                return
            r = r or None
            acc.case(key=digest(s), nontrivial=len(TOKEN_RE.findall(s)) >= 2, sample={"text": s})
            if r:
                acc.fail(r[0], {"text": s}, r[1])
            else:
                o = outcome(s)
                acc.cls("outcome_" + (o[1] if o[0] == "lib" else o[0]))

        hyp_run(strat, fn, task["n"], seed * 1000 + 500 + task["shard"])
        return
    if kind == "atheris":
        run_atheris(task, seed, acc)
        return
    raise ValueError(kind)


# ---- atheris campaign (thorough) --------------------------------------------------------

def run_atheris(task, seed, acc):
    from ..fuzz_c10 import bytes_to_text
    work = tempfile.mkdtemp(prefix="vp-c10-fuzz-")
    try:
        corpus = os.path.join(work, "corpus")
        crashes = os.path.join(work, "crashes")
        os.makedirs(corpus)
        os.makedirs(crashes)
        if task["corpus"]:
            for i, a in enumerate(ATOMS):
                with open(os.path.join(corpus, "seed%d" % i), "wb") as f:
                    f.write(bytes([0, 6, ATOMS.index(a), 12, 28, 0]))
        env = dict(os.environ)
        env["PYTHONPATH"] = VERIF + os.pathsep + os.path.join(VERIF, ".deps")
        cmd = [sys.executable, "-m", "vp.fuzz_c10", "-runs=%d" % task["runs"],
               "-seed=%d" % (seed * 100 + task["shard"] + 1), "-max_len=64", "-timeout=25",
               "-artifact_prefix=" + crashes + "/", "-print_final_stats=1", corpus]
        p = subprocess.run(cmd, cwd=VERIF, env=env, stdout=subprocess.PIPE, stderr=subprocess.STDOUT,
                           text=True, errors="replace")
        m = re.search(r"stat::number_of_executed_units:\s*(\d+)", p.stdout)
        execs = int(m.group(1)) if m else 0
        acc.extra["atheris_execs"] = execs
        acc.evaluations += execs
        acc.cls("atheris_execs", execs)
        units = set()
        for fn in os.listdir(corpus):
            with open(os.path.join(corpus, fn), "rb") as f:
                units.add(bytes_to_text(f.read()))
        for u in units:
            acc.nontrivial.add(digest(u))
        acc.extra["atheris_corpus_units"] = len(units)
        for fn in sorted(os.listdir(crashes)):
            with open(os.path.join(crashes, fn), "rb") as f:
                s = bytes_to_text(f.read())
            with _Watch(acc) as w2:
                r = w2.run(lambda x: check_string(x) or False, s)
            if r is None:
                continue      # recorded as inconclusive by the watchdog
            if r:
                acc.fail(r[0], {"text": s}, r[1])
            else:
                acc.notes.append("atheris artifact %s did not reproduce: %r" % (fn, s[:100]))
    finally:
        import shutil
        shutil.rmtree(work, ignore_errors=True)
