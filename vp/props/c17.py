"""C17 - making a lambda body relative strips exactly the lambda variable's prefix."""
import copy

from hypothesis import strategies as st

from .. import gen_syntax, lib, printer, shrink as shr, treeref
from ..decode import decode
from ..runner import digest, hyp_run
from ..terms import children, from_json, ident, positions, replace_at, to_json, walk, wellformed

PROPERTY_ID = "C17"
RULE = ("expressions from the full-grammar generator (depth <= 3/4) into which paths of depth 1-4 rooted at "
        "the variable are planted at random operand positions (inside calls, lists, comparisons, nested "
        "lambdas that bind another name; one planted path in twelve has 5-33 hops, and one tree in 25 is large along the size ladder: lists up to 1001 items, operator runs up to 129, nesting up to 65), together with decoys: the bare variable, the variable as an inner "
        "path segment, inside a namespaced identifier, as a function or parameter name. Oracle: the harness's "
        "own re-rooting on decoded terms; identity (==) when no path is rooted at the variable; input not "
        "mutated. Non-trivial: >= 1 path rooted at the variable below the top and >= 1 other occurrence of "
        "the name that must stay; distinct by (tree, variable)."
        " Long-lived process: 130-4000 (thorough: 60000) rounds in which three long-lived trees are made relative again while one-off trees pass through, each result compared with the reference for that very tree. Every case is followed by its look-alike twin (field-less operator tokens swapped, integer literals turned into strings) in the same process."
        " Plus a coverage-guided campaign (atheris/libFuzzer mutating the byte buffer that Hypothesis decodes through the same strategy, the same oracle inside the target; quick 3000-4000 executions, thorough 4 x 100000-150000).")
ASSUMPTIONS = ["nested lambdas binding the same name as the stripped variable are outside the quantifier"]

VARS = ["x", "v", "it", "owner", "a"]


@st.composite
def cases(draw, depth):
    var = draw(st.sampled_from(VARS))
    t = draw(gen_syntax.exprs(depth, gen_syntax.Cfg()))
    # rename nested lambdas that bind `var` (same-name shadowing is outside the quantifier)
    t = rename_binders(t, var)
    pos = [p for p, s in positions(t) if s[0] in ("id", "lit", "path") and replaceable(t, p)]
    n = draw(st.integers(0, 4))
    for _ in range(n):
        if not pos:
            break
        p = draw(st.sampled_from(pos))
        kind = draw(st.integers(0, 9))
        segs = draw(st.lists(st.sampled_from(gen_syntax.SAFE_NAMES + [var]), min_size=1, max_size=4))
        if draw(st.integers(0, 11)) == 0:
            # a long path: hop counts from the size ladder
            hops = draw(st.sampled_from(gen_syntax.LADDER["hops"]))
            segs = [(gen_syntax.SAFE_NAMES + [var])[(i * 5 + hops) % (len(gen_syntax.SAFE_NAMES) + 1)] for i in range(hops)]
        if kind < 6:
            new = ident(var)                       # rooted at the variable
        elif kind == 6:
            new = ident(var, ("ns",))              # namespaced identifier with the same name
        elif kind == 7:
            new = ident("other")                   # rooted elsewhere, var as an inner segment
            segs = [var] + segs
        elif kind == 8:
            t = replace_at(t, p, ident(var))       # the bare variable
            continue
        else:
            new = ident(var + "x")
        for s in segs:
            new = ("path", new, s)
        t = replace_at(t, p, new)
    return {"term": to_json(t), "var": var}


def replaceable(t, p):
    """Positions where an arbitrary path may stand: not the owner of a path/lambda, not a
    named parameter's own node."""
    cur = t
    for i in p:
        if cur[0] in ("path",):
            return False
        if cur[0] == "lambda" and i == 0:
            return False
        cur = children(cur)[i]
    return True


def rename_binders(t, var):
    if t[0] == "lambda" and t[3] == var:
        body = rename_uses(t[4], var, var + "_b")
        t = ("lambda", t[1], t[2], var + "_b", body)
    from ..terms import rebuild
    return rebuild(t, [rename_binders(c, var) for c in children(t)]) if children(t) else t


def rename_uses(t, old, new):
    from ..terms import rebuild
    if t == ("id", old, ()):
        return ("id", new, ())
    return rebuild(t, [rename_uses(c, old, new) for c in children(t)]) if children(t) else t


def check_case(case):
    from odata_query import ast
    from odata_query.utils import expression_relative_to_identifier
    t = from_json(case["term"])
    var = case["var"]
    text = printer.render(t)
    try:
        a = lib.parse(text)
    except Exception as e:
        return ("setup-parse:" + type(e).__name__, "%r: %s" % (text, e))
    if decode(a) != t:
        return ("setup-decode", "%r decodes differently (C05 matter)" % text)
    snap = copy.deepcopy(a)
    try:
        out = expression_relative_to_identifier(ast.Identifier(var), a)
    except Exception as e:
        return ("exception:" + lib.exc_bucket(e), "%r var=%r -> %s: %s" % (text, var, type(e).__name__, e))
    if a != snap or decode(a) != t:
        return ("input-mutated", "%r var=%r" % (text, var))
    try:
        got = decode(out)
    except Exception as e:
        return ("malformed-result", "%r var=%r -> %r (%s)" % (text, var, out, e))
    exp = treeref.reroot(t, var)
    if got != exp:
        return ("reroot-differs", "%r var=%r expected=%r got=%r" % (text, var, exp, got))
    # the class behind the helper, used directly (one instance per variable, as a caller would)
    try:
        from odata_query.rewrite import IdentifierStripper
        got2 = decode(IdentifierStripper(ast.Identifier(var)).visit(a))
    except Exception as e:
        return ("stripper-class:exception:" + lib.exc_bucket(e), "%r var=%r -> %s: %s" % (text, var, type(e).__name__, e))
    if got2 != exp:
        return ("stripper-class:reroot-differs", "%r var=%r expected=%r got=%r" % (text, var, exp, got2))
    if a != snap:
        return ("input-mutated", "%r var=%r (IdentifierStripper)" % (text, var))
    if exp == t and out != a:
        return ("identity-not-equal", "%r var=%r" % (text, var))
    return None


SWAP = {"eq": "ne", "ne": "eq", "lt": "ge", "ge": "lt", "gt": "le", "le": "gt", "and": "or", "or": "and",
        "add": "sub", "sub": "add", "mul": "div", "div": "mul", "mod": "mul", "any": "all"}


def twin(t):
    """Same shape, but every field-less operator token swapped and integer literals turned into
    strings: a result cached on a key that ignores those would be returned for the wrong tree."""
    from ..terms import rebuild
    k = t[0]
    if k == "lit" and t[1] == "int":
        return ("lit", "str", t[2])
    if k in ("bin", "cmp", "bool") and t[1] in SWAP and not (k == "cmp" and t[1] == "in"):
        return (k, SWAP[t[1]], twin(t[2]), twin(t[3]))
    cs = children(t)
    return rebuild(t, [twin(c) for c in cs]) if cs else t


def check_with_twin(case):
    r = check_case(case)
    if r:
        return r
    t2 = twin(from_json(case["term"]))
    if wellformed(t2):
        r = check_case(dict(case, term=to_json(t2)))
        if r:
            return ("after-lookalike:" + r[0], "first %r then its look-alike: %s" % (printer.render(from_json(case["term"])), r[1]))
    return None


def check_history(n, seed):
    """A long-lived process: a few long-lived trees are made relative again and again while n one-off
    trees (parsed, made relative once, dropped) pass through; every result is compared with the
    harness's own re-rooting of that very tree, and the input must come back untouched."""
    from odata_query import ast
    from odata_query.utils import expression_relative_to_identifier
    x = ast.Identifier("x")

    def one_off(i):
        k = (i + seed) % 5
        return [("bool", "and", ("cmp", "eq", ("path", ("path", ident("x"), "owner"), "f%d" % i), ("lit", "int", str(i))),
                 ("call", "startswith", (), (("path", ident("x"), "tag"), ("lit", "str", "t%d" % i)))),
                ("cmp", "gt", ("path", ident("x"), "h%d" % i), ("lit", "int", "0")),
                ("cmp", "in", ("path", ident("y"), "x"), ("list", (("path", ident("x"), "a%d" % i), ("lit", "int", str(i))))),
                ("cmp", "eq", ident("x"), ("path", ("path", ident("other"), "x"), "n%d" % i)),
                ("lambda", ("path", ident("x"), "items"), "any", "w", ("cmp", "eq", ("path", ident("w"), "k"), ("path", ident("x"), "k%d" % i)))][k]

    hot_terms = [("cmp", "gt", ("path", ident("x"), "h%d" % k), ("lit", "int", "0")) for k in range(3)]
    hot = [(lib.parse(printer.render(t)), t) for t in hot_terms]
    for i in range(n):
        t = one_off(i)
        probes = [(a, ht, "long-lived tree #%d" % j) for j, (a, ht) in enumerate(hot)] + [(lib.parse(printer.render(t)), t, "one-off tree")]
        for a, term, what in probes:
            for var in ("x", "y"):
                try:
                    got = decode(expression_relative_to_identifier(ast.Identifier(var), a))
                except Exception as e:
                    return ("history:exception:" + lib.exc_bucket(e), "round %d of %d, %s %r var=%s: %s" % (i, n, what, printer.render(term), var, e))
                exp = treeref.reroot(term, var)
                if got != exp:
                    return ("history:reroot-differs", "round %d of %d, %s %r var=%s: expected %r got %r" % (
                        i, n, what, printer.render(term), var, exp, got))
            if decode(a) != term:
                return ("history:input-mutated", "round %d of %d, %s %r" % (i, n, what, printer.render(term)))
        del probes
    return None


def replay(case):
    if "history" in case:
        return check_history(case["history"], case["seed"])
    return check_with_twin(case)


def shrink(case, bucket):
    if "history" in case:
        n = case["history"]
        while n > 8:          # the shortest history that still fails the same way
            r = check_history(n // 2, case["seed"])
            if not (r and r[0] == bucket):
                break
            n //= 2
        return dict(case, history=n)
    t = from_json(case["term"])

    def still(c):
        if not wellformed(c):
            return False
        r = check_with_twin(dict(case, term=to_json(c)))
        return bool(r) and r[0] == bucket

    return dict(case, term=to_json(shr.shrink_term(t, still, budget=250)))


def nontrivial(case):
    t = from_json(case["term"])
    var = case["var"]
    rooted = 0
    other = 0
    for p, s in positions(t):
        if s[0] == "path" and s[1] == ("id", var, ()):
            if p:
                rooted += 1
        elif s[0] == "id" and s[1] == var:
            other += 1
        elif s[0] == "path" and s[2] == var:
            other += 1
    # a rooted path contributes one ("id", var) occurrence itself
    return rooted >= 1 and other > rooted


def fuzz_target():
    """(strategy, fn) for the coverage-guided campaign (vp.fuzz_prop)."""
    def fn(case):
        r = check_with_twin(case)
        return (r[0], r[1], case) if r else None
    return cases(3), fn


def plan(tier, seed, scale):
    K = 16
    total = int((10000 if tier == "quick" else 140000) * scale)
    tasks = [{"name": "rand-%d" % i, "n": max(total // K, 10), "shard": i,
              "depth": 3 if tier == "quick" else 4} for i in range(K)]
    for n in ([130, 300, 600, 1500, 4000] if tier == "quick" else [130, 300, 600, 1500, 4000, 20000, 60000]):
        tasks.append({"name": "history-%d" % n, "history": n})
    for i in range(1 if tier == "quick" else 4):
        tasks.append({"name": "covfuzz-%d" % i, "kind": "covfuzz", "shard": i,
                      "runs": int((3000 if tier == "quick" else 100000) * scale)})
    return tasks


def run_task(task, seed, acc):
    if task.get("kind") == "covfuzz":
        from ..runner import run_covfuzz
        run_covfuzz(__name__, task, seed, acc)
        return
    if "history" in task:
        case = {"history": task["history"], "seed": seed}
        r = check_history(task["history"], seed)
        acc.case(key=digest(case), nontrivial=True, sample=case)
        acc.cls("history_rounds", task["history"])
        if r:
            acc.fail(r[0], case, r[1])
        return

    def one(case):
        r = check_with_twin(case)
        nt = nontrivial(case)
        acc.case(key=digest(case), nontrivial=nt,
                 sample={"expr": printer.render(from_json(case["term"])), "var": case["var"]})
        if nt:
            acc.cls("nontrivial")
        t = from_json(case["term"])
        if treeref.reroot(t, case["var"]) == t:
            acc.cls("identity_case")
        if any(x[0] == "lambda" for x in walk(t)):
            acc.cls("has_nested_lambda")
        if r:
            acc.fail(r[0], case, r[1])

    hyp_run(cases(task["depth"]), one, task["n"], seed * 1000 + task["shard"])
