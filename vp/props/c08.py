"""C08 - ORM backends pass every filter value to the database as a bound parameter."""
from hypothesis import strategies as st

from .. import db_orm, gen_typed, lib, printer
from ..runner import digest, hyp_run
from ..terms import children, from_json, rebuild, to_json, walk

PROPERTY_ID = "C08"
RULE = ("templates = typed filters of the ORM fragment (all operators, in-lists, every string/date/math function, "
        "GUID comparisons) whose literal holes (string, int, real, date, date-time, GUID, list elements; booleans "
        "and null are keywords, not values) are filled by two assignments of distinct sentinel values (strings "
        "with SQL metacharacters and a unique marker - some with 17+ quotes or 40 wildcards and hundreds of characters -, integers >= 10^6 and beyond 64 bits, decimals with 17 and 35+ significant digits ...); compiled (not executed) through "
        "Django sql_with_params, SQLAlchemy ORM and Core compile (for the SQLite engine and, compile-only, for the PostgreSQL, MySQL, SQL Server and Oracle dialects). Oracle: both assignments give the identical SQL "
        "string and no sentinel's text occurs in it (how many sentinels reach the parameter list is measured: an ORM may fold constant sub-conditions away). Non-trivial: >= 1 "
        "string hole inside a function argument or list, or >= 3 holes; distinct by (template, backend)."
        " On SQLAlchemy, assignment A gives all elements of an in-list the same value (the SQL must not depend on whether values repeat); every second string of assignment B is plain (the SQL must not depend on whether metacharacters occur).")
ASSUMPTIONS = ["SQL text and parameters are read from Django's Query.sql_with_params() and SQLAlchemy's compiled statement (sqlite dialect)"]

FR = gen_typed.Fragment("orm", funcs=gen_typed.STRING_FUNCS + ["year", "month", "day", "hour", "minute", "second",
                                                                "round", "floor", "ceiling"],
                        neg=False, bare_bool=False, bare_bool_fn=True, null_left=True, dt_offsets="z")
HOLE_KINDS = ("str", "int", "float", "date", "datetime", "guid")


def sentinel(kind, n, which):
    """(literal text, marker to look for in SQL text / parameters)."""
    base = 1 if which == "A" else 2
    if kind == "str":
        m = "zq%s%dx" % (which, n)
        if which == "B" and n % 2 == 0:
            return (m, m)          # a plain value: the SQL must not depend on *whether* metacharacters occur
        if n % 5 == 4:
            # long along the size ladder: many quotes / wildcards, hundreds of characters
            return (m + ("'" * 17 if which == "A" else "%_" * 20) + "x" * (300 if n % 2 else 70) + "' --", m)
        return ("' OR 1=1; -- %s %%_\\ \"" % m, m)
    if kind == "int":
        v = base * 1000000 + 7 * n + 13
        if n % 4 == 3:
            v = base * 2 ** 64 + 7 * n + 13      # beyond the signed 64-bit range
        return (str(v), str(v))
    if kind == "float":
        v = "%d.%s" % (base * 12345 + n, "25" if which == "A" else "75")
        if n % 4 == 2:
            v = "%d.%s" % (base * 12345 + n, "1234567890123456" + ("25" if which == "A" else "75"))   # > 15 significant digits
        elif n % 4 == 3:
            v = "%d%s.5" % (base * 12345 + n, "0123456789" * 3)                                       # 35 digits before the point
        return (v, v[:9])
    if kind == "date":
        d = "%d-%02d-%02d" % (2030 + base, 1 + n % 12, 1 + n % 28)
        return (d, d)
    if kind == "datetime":
        d = "%d-%02d-%02dT%02d:%02d:%02dZ" % (2040 + base, 1 + n % 12, 1 + n % 28, n % 24, (7 * n) % 60, (11 * n) % 60)
        return (d, d[:10])
    if kind == "guid":
        g = "%08x-0000-4000-8000-%012x" % (0xabc00000 + base * 4096 + n, 0x123456000000 + n)
        return (g, g[:8])
    raise ValueError(kind)


def fill(t, which, counter=None, holes=None, dup_lists=False):
    """Replace every value literal by the n-th sentinel of the assignment. In assignment A all
    elements of an in-list of one kind get the *same* value (the SQL must not depend on whether
    values repeat), in assignment B they are all different."""
    if counter is None:
        counter = [0]
    if dup_lists and t[0] == "list" and which == "A" and len(t[1]) > 1 and all(e[0] == "lit" and e[1] == t[1][0][1] and e[1] in HOLE_KINDS for e in t[1]):
        n = counter[0]
        counter[0] += len(t[1])
        text, marker = sentinel(t[1][0][1], n, which)
        if holes is not None:
            holes.extend([(t[1][0][1], marker)] * len(t[1]))
        return ("list", tuple(("lit", t[1][0][1], text) for _ in t[1]))
    if t[0] == "lit" and t[1] in HOLE_KINDS:
        n = counter[0]
        counter[0] += 1
        text, marker = sentinel(t[1], n, which)
        if holes is not None:
            holes.append((t[1], marker))
        return ("lit", t[1], text)
    cs = children(t)
    if not cs:
        return t
    return rebuild(t, [fill(c, which, counter, holes, dup_lists) for c in cs])


def compile_backend(name, text):
    """(sql, [parameter values]) or raises."""
    if name == "django":
        from odata_query.django import apply_odata_query
        M = db_orm.django_models()
        from django.core.exceptions import EmptyResultSet, FullResultSet
        try:
            sql, params = apply_odata_query(M.Item.objects, text).query.sql_with_params()
        except EmptyResultSet:
            return "<EmptyResultSet: constant-false filter, no SQL is sent>", []
        except FullResultSet:
            return "<FullResultSet>", []
        return sql, list(params)
    from odata_query.sqlalchemy import apply_odata_core, apply_odata_query
    S = db_orm.sqlalchemy_models()
    base, _, dialect = name.partition("@")
    if base == "sqlalchemy-orm":
        stmt = apply_odata_query(S.sa.select(S.Item), text)
    else:
        stmt = apply_odata_core(S.sa.select(S.Item.__table__), text)
    if dialect:
        # compiled (never executed) for another engine's dialect: no driver is needed for that
        import importlib
        from sqlalchemy.exc import CompileError
        d = importlib.import_module("sqlalchemy.dialects." + dialect).dialect()
        try:
            c = stmt.compile(dialect=d)
        except CompileError as e:
            raise DialectRefuses(str(e))
    else:
        c = stmt.compile(S.engine)
    return str(c), list(c.params.values())


class DialectRefuses(Exception):
    """SQLAlchemy itself cannot render a construct for that dialect (counted, not judged)."""


BACKENDS = ["django", "sqlalchemy-orm", "sqlalchemy-core", "sqlalchemy-orm@postgresql", "sqlalchemy-core@mysql",
            "sqlalchemy-orm@mssql", "sqlalchemy-core@oracle"]


def check_case(case):
    from odata_query import exceptions
    t = from_json(case["term"])
    for name in case.get("backends", BACKENDS):
        # Django's own `In` lookup de-duplicates equal values (fewer placeholders, all still bound), so the
        # "repeated value" assignment is only used on SQLAlchemy, which keeps one placeholder per element
        dup = name.startswith("sqlalchemy")
        ha, hb = [], []
        ta, tb = fill(t, "A", holes=ha, dup_lists=dup), fill(t, "B", holes=hb, dup_lists=dup)
        xa, xb = printer.render(ta), printer.render(tb)
        try:
            sa_, pa = compile_backend(name, xa)
            sb_, pb = compile_backend(name, xb)
        except (exceptions.ODataException, DialectRefuses) as e:
            case.setdefault("_refused", []).append(name)
            continue
        except Exception as e:
            return ("%s:exception:%s@%s" % (name, type(e).__name__, lib.innermost_frame(e)),
                    "%r -> %s: %s" % (xa, type(e).__name__, str(e)[:200]))
        if sa_ != sb_:
            return ("%s:sql-depends-on-values" % name, "%r -> %s\n%r -> %s" % (xa, sa_, xb, sb_))
        for holes, sql, params, text, filled in ((ha, sa_, pa, xa, ta), (hb, sb_, pb, xb, tb)):
            ptxt = [str(p) for p in params]
            marker_value = {}
            for x in walk(filled):
                if x[0] == "lit" and x[1] in ("int", "float"):
                    for kind_, m_ in holes:
                        if kind_ == x[1] and x[2].startswith(m_):
                            marker_value[(text, m_)] = float(x[2])
            for kind, marker in holes:
                if marker in sql:
                    return ("%s:value-in-sql-text:%s" % (name, kind), "%r: value %r appears in SQL %s" % (text, marker, sql))
                # (an ORM may fold constant sub-conditions away, so a value need not reach the
                # parameter list; how many do is measured, not asserted)
                reached = any(marker in p for p in ptxt) or (kind in ("int", "float") and _num_reaches(marker_value.get((text, marker)), params))
                key = "_in_params" if reached else "_folded_away"
                case[key] = case.get(key, 0) + 1
                if not reached and name.startswith("sqlalchemy"):
                    # SQLAlchemy folds nothing away: a value that is in neither the SQL text nor the parameters
                    # has been lost or replaced on the way
                    return ("%s:value-reaches-neither-sql-nor-parameters:%s" % (name, kind),
                            "%r: value %r not among the parameters %r of %s" % (text, marker, ptxt[:12], sql))
    return None


def _num_reaches(v, params):
    if v is None:
        return False
    flat = []
    for p in params:
        flat.extend(p if isinstance(p, (list, tuple)) else [p])
    for p in flat:
        try:
            if not isinstance(p, bool) and float(p) == v:
                return True
        except (TypeError, ValueError, OverflowError):
            pass
    return False


def replay(case):
    return check_case(dict(case))


def signature(case):
    from ..semcheck import skeleton
    return skeleton(from_json(case["term"]))


def shrink(case, bucket):
    from .. import semcheck
    case = {k: v for k, v in case.items() if not k.startswith("_")}

    def chk(c):
        return check_case(dict(c))

    return semcheck.shrink_case(case, bucket, FR, chk, budget=150)


def holes_of(t):
    return [x for x in walk(t) if x[0] == "lit" and x[1] in HOLE_KINDS]


def nontrivial(t):
    hs = holes_of(t)
    if len(hs) >= 3:
        return True
    for x in walk(t):
        if x[0] == "call" and any(a[0] == "lit" and a[1] == "str" for a in x[3]):
            return True
        if x[0] == "list" and any(a[0] == "lit" and a[1] in HOLE_KINDS for a in x[1]):
            return True
    return False


GUID_T = ("lit", "guid", "123e4567-e89b-12d3-a456-426614174000")


@st.composite
def templates(draw, depth):
    t = draw(gen_typed.pred(depth, FR))
    k = draw(st.integers(0, 5))
    if k == 0:
        t = ("bool", "and", t, ("cmp", draw(st.sampled_from(["eq", "ne"])), ("id", "g1", ()), GUID_T))
    elif k == 1:
        t = ("bool", "or", ("cmp", "in", ("id", "g1", ()), ("list", (GUID_T, GUID_T))), t)
    return t


FIXED = [
    ("call", "contains", (), (("id", "s1", ()), ("lit", "str", "x"))),
    ("call", "startswith", (), (("call", "tolower", (), (("id", "s1", ()),)), ("lit", "str", "x"))),
    ("call", "endswith", (), (("call", "concat", (), (("id", "s1", ()), ("lit", "str", "y"))), ("lit", "str", "x"))),
    ("cmp", "eq", ("call", "indexof", (), (("id", "s1", ()), ("lit", "str", "x"))), ("lit", "int", "1")),
    ("cmp", "eq", ("call", "substring", (), (("id", "s1", ()), ("lit", "int", "1"), ("lit", "int", "2"))), ("lit", "str", "x")),
    ("cmp", "eq", ("call", "concat", (), (("lit", "str", "a"), ("lit", "str", "b"))), ("id", "s2", ())),
    ("cmp", "in", ("id", "s1", ()), ("list", (("lit", "str", "a"), ("lit", "str", "b"), ("lit", "str", "c")))),
    ("cmp", "in", ("id", "i1", ()), ("list", (("lit", "int", "1"), ("lit", "int", "2")))),
    ("cmp", "gt", ("id", "t1", ()), ("lit", "datetime", "2020-01-01T00:00:00Z")),
    ("cmp", "le", ("id", "d1", ()), ("lit", "date", "2020-01-01")),
    ("cmp", "eq", ("id", "g1", ()), GUID_T),
    ("cmp", "lt", ("bin", "mul", ("id", "r1", ()), ("lit", "float", "1.5")), ("bin", "add", ("id", "i1", ()), ("lit", "int", "3"))),
    ("cmp", "eq", ("lit", "str", "lhs"), ("id", "s1", ())),
    ("cmp", "eq", ("call", "round", (), (("bin", "div", ("id", "r1", ()), ("lit", "float", "2.5")),)), ("lit", "float", "1.0")),
]


def plan(tier, seed, scale):
    K = 16
    total = int((4000 if tier == "quick" else 50000) * scale)
    tasks = [{"name": "fixed", "kind": "fixed"}]
    for i in range(K):
        tasks.append({"name": "rand-%d" % i, "kind": "rand", "n": max(total // K, 5), "shard": i,
                      "depth": 3 if tier == "quick" else 4})
    return tasks


def run_task(task, seed, acc):
    def one(t):
        case = {"term": to_json(t)}
        r = check_case(case)
        refused = case.pop("_refused", [])
        acc.cls("values_found_in_parameter_list", case.pop("_in_params", 0))
        acc.cls("values_folded_away_by_the_orm", case.pop("_folded_away", 0))
        n_ok = len(BACKENDS) - len(refused)
        acc.case(key=digest(repr(t)), nontrivial=nontrivial(t) and n_ok > 0, n=max(n_ok, 1),
                 sample={"template_A": printer.render(fill(t, "A")), "holes": len(holes_of(t))})
        acc.cls("holes", len(holes_of(t)))
        for b in refused:
            acc.cls("refused_by_" + b)
        for x in holes_of(t):
            acc.cls("hole_" + x[1])
        if r:
            acc.fail(r[0], case, r[1])

    if task["kind"] == "fixed":
        for t in FIXED:
            one(t)
        return
    hyp_run(templates(task["depth"]), one, task["n"], seed * 1000 + task["shard"])
