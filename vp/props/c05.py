"""C05 - the parser groups operators exactly as the OData precedence table dictates.

Oracle: decode(parse(print_minimal(t))) == t and decode(parse(print_full(t))) == t, where
the printer knows only the specification's precedence table (vp/printer.py).
"""
from hypothesis import strategies as st

from .. import gen_syntax, lib, printer, shrink as shr
from ..decode import DecodeError, decode
from ..printer import PREC, FullStyle, RandomStyle, Style
from ..runner import digest, hyp_run
from ..terms import children, from_json, to_json, walk, wellformed

PROPERTY_ID = "C05"
RULE = ("exhaustive: every tree with exactly 1..3 (thorough: ..4, plus operators inside `in` "
        "lists) operator nodes over 14 binary and 2 unary operators, identifier leaves; random: "
        "full-grammar trees (paths, calls, lambdas, lists, all literal kinds) to depth 4 (6). "
        "Each tree is printed minimally and fully parenthesised (and with redundant "
        "parentheses/blank layout) by a printer that knows only the spec table, parsed, decoded "
        "and compared. Non-trivial: >= 2 operator nodes where a parent/child pair has different "
        "precedence or an equal-precedence operator is nested on the right; distinct by term."
        " Long runs: every binary operator in left-nested, right-nested and balanced runs of 5..33 (thorough: ..129) operands, alternating two-operator runs, unary chains."
        " Plus a coverage-guided campaign (atheris/libFuzzer mutating the byte buffer that Hypothesis decodes through the same strategy, the same oracle inside the target; quick 3000-4000 executions, thorough 4 x 100000-150000).")
ASSUMPTIONS = [
    "reference printer implements OData 4.01 5.1.1.14 (in > unary > mul > add > rel > eq > and > or)",
    "the singleton-list trailing comma is the library's documented deviation from the ABNF",
]


def nontrivial(t):
    for x in walk(t):
        if x[0] in ("bin", "cmp", "bool", "un"):
            p = PREC[x[1]]
            cs = children(x)
            for i, c in enumerate(cs):
                if c[0] in ("bin", "cmp", "bool", "un"):
                    q = PREC[c[1]]
                    if q != p or (i == 1):
                        return True
    return False


def first_diff(a, b):
    """Short description of the first structural difference."""
    if type(a) is not tuple or type(b) is not tuple:
        return "%r|%r" % (a, b)
    if a[0] != b[0] or (a[0] in ("bin", "cmp", "bool", "un") and a[1] != b[1]):
        return "%s.%s|%s.%s" % (a[0], a[1] if a[0] in ("bin", "cmp", "bool", "un", "lit") else "",
                                b[0], b[1] if b[0] in ("bin", "cmp", "bool", "un", "lit") else "")
    ca, cb = children(a), children(b)
    if len(ca) != len(cb):
        return "%s.arity" % a[0]
    for x, y in zip(ca, cb):
        if x != y:
            return first_diff(x, y)
    return "%s.fields" % a[0]


def _parse_with_little_stack(text, frames):
    """Parse in a process whose recursion limit leaves `frames` frames above the caller (flat operator
    runs need fewer than 60): grouping must not depend on how much stack a deployment allows."""
    import inspect
    import sys
    old = sys.getrecursionlimit()
    sys.setrecursionlimit(len(inspect.stack(0)) + frames)
    try:
        a = lib.parse_plain(text)      # only the library's own work runs with the lowered limit
    finally:
        sys.setrecursionlimit(old)
    return lib.with_provenance(a, text)


def check_text(t, text, frames=None):
    """None if parse(text) decodes to t, else (bucket, detail)."""
    try:
        ast = _parse_with_little_stack(text, frames) if frames else lib.parse(text)
    except Exception as e:  # any exception on a valid filter violates C05
        return ("exception:" + lib.exc_bucket(e), "text=%r -> %s: %s" % (text, type(e).__name__, e))
    try:
        got = decode(ast)
    except DecodeError as e:
        return ("malformed-ast", "text=%r -> %s" % (text, e))
    if got != t:
        return ("mismatch:" + first_diff(t, got), "text=%r expected=%r got=%r" % (text, t, got))
    return None


STYLES = {"minimal": Style, "full": FullStyle}


def check_case(case):
    """case = {"term": json term, "mode": minimal|full|random, "style_seed": int}"""
    t = from_json(case["term"])
    mode = case.get("mode", "minimal")
    if mode in STYLES:
        text = printer.render(t, STYLES[mode]())
    else:
        # random layout: redundant parentheses + blanks, either base mode
        base = "full" if case["style_seed"] % 2 else "minimal"
        text = printer.render(t, RandomStyle(case["style_seed"], mode=base, case=False,
                                             redundant=True))
    r = check_text(t, text)
    if not r and case.get("frames"):
        r = check_text(t, text, case["frames"])
        if r:
            r = ("little-stack:" + r[0], "with %d frames of stack: %s" % (case["frames"], r[1]))
    return r


def replay(case):
    return check_case(case)


def shrink(case, bucket):
    t = from_json(case["term"])

    def still(c):
        if not wellformed(c):
            return False
        r = check_case(dict(case, term=to_json(c)))
        return bool(r) and r[0] == bucket

    t2 = shr.shrink_term(t, still, budget=300)
    return dict(case, term=to_json(t2))


def chain_terms(tier):
    """Long same-operator runs (left-nested, right-nested, balanced) and mixed two-operator runs."""
    from ..gen_syntax import _node
    ns = [5, 9, 17, 33, 65, 129] if tier == "quick" else [5, 8, 9, 10, 12, 16, 17, 25, 33, 64, 129]
    leaves = [("id", "x%d" % i, ()) for i in range(140)]
    for op in gen_syntax.BINARY:
        if op == "in":
            continue
        for n in ns:
            ls = leaves[:n]
            left = ls[0]
            for x in ls[1:]:
                left = _node(op, left, x)
            yield left
            right = ls[-1]
            for x in reversed(ls[:-1]):
                right = _node(op, x, right)
            yield right

            def bal(xs):
                if len(xs) == 1:
                    return xs[0]
                m = len(xs) // 2
                return _node(op, bal(xs[:m]), bal(xs[m:]))
            yield bal(ls)
    for o1, o2 in (("and", "or"), ("or", "and"), ("add", "mul"), ("sub", "div"), ("eq", "lt"), ("and", "eq")):
        for n in ns[:3]:
            t = leaves[0]
            for i, x in enumerate(leaves[1:n]):
                t = _node(o1 if i % 2 else o2, t, x)
            yield t
    for n in ns[:4]:
        t = leaves[0]
        for _ in range(n):
            t = ("un", "not", t)
        yield t
        t = leaves[0]
        for i in range(n):
            t = ("un", "neg" if i % 2 else "not", t)
        yield t


def fuzz_target():
    """(strategy, fn) for the coverage-guided campaign (vp.fuzz_prop)."""
    strat = st.tuples(gen_syntax.exprs(4, gen_syntax.Cfg(full_unicode=False)), st.sampled_from(["minimal", "full", "random"]),
                      st.integers(0, 2 ** 30))

    def fn(p):
        case = {"term": to_json(p[0]), "mode": p[1], "style_seed": p[2]}
        r = check_case(case)
        return (r[0], r[1], case) if r else None
    return strat, fn


def plan(tier, seed, scale):
    tasks = [{"name": "chains", "kind": "chains", "tier": tier}]
    for i in range(1 if tier == "quick" else 4):
        tasks.append({"name": "covfuzz-%d" % i, "kind": "covfuzz", "shard": i,
                      "runs": int((3000 if tier == "quick" else 150000) * scale)})
    K = 16
    ns = [1, 2, 3] if tier == "quick" else [1, 2, 3, 4]
    for n in ns:
        k = 1 if n < 3 else K
        for i in range(k):
            tasks.append({"name": "exh-ops%d-%d" % (n, i), "kind": "exh", "n": n, "i": i, "k": k,
                          "list_ops": False})
    for i in range(K):
        tasks.append({"name": "exh-listops-%d" % i, "kind": "exh", "n": 3 if tier == "quick" else 4,
                      "i": i, "k": K, "list_ops": True, "only_list": True})
    total = int((20000 if tier == "quick" else 200000) * scale)
    for i in range(K):
        tasks.append({"name": "rand-%d" % i, "kind": "rand", "n": max(total // K, 10),
                      "depth": 4 if tier == "quick" else 6, "shard": i})
    return tasks


def has_list_op(t):
    for x in walk(t):
        if x[0] == "list":
            for e in x[1]:
                if e[0] != "id":
                    return True
    return False


def run_task(task, seed, acc):
    if task["kind"] == "covfuzz":
        from ..runner import run_covfuzz
        run_covfuzz(__name__, task, seed, acc)
        return
    if task["kind"] == "chains":
        for t in chain_terms(task["tier"]):
            for mode in ("minimal", "full"):
                case = {"term": to_json(t), "mode": mode}
                if mode == "minimal" and t[0] in ("bool", "bin", "cmp") and t[2][0] == t[0]:
                    case["frames"] = 120        # left-nested runs are flat text: also parsed with little stack
                r = check_case(case)
                acc.case(key=digest(repr(t) + mode), nontrivial=True,
                         sample={"text": printer.render(t, STYLES[mode]())[:120], "mode": mode})
                acc.cls("long_chains")
                if r:
                    acc.fail(r[0], case, r[1])
        return
    if task["kind"] == "exh":
        it = gen_syntax.enumerate_ops(task["n"], task["list_ops"])
        for idx, t in enumerate(it):
            if idx % task["k"] != task["i"]:
                continue
            if task.get("only_list") and not has_list_op(t):
                continue
            for mode in ("minimal", "full"):
                case = {"term": to_json(t), "mode": mode}
                r = check_case(case)
                nt = nontrivial(t)
                acc.case(key=digest(repr(t) + mode), nontrivial=nt,
                         sample={"text": printer.render(t, STYLES[mode]()), "mode": mode})
                if r:
                    acc.fail(r[0], case, r[1])
        acc.extra["exhaustive"] = True
        acc.cls("exhaustive_trees_ops%d%s" % (task["n"], "_listops" if task["list_ops"] else ""), 0)
        return
    cfg = gen_syntax.Cfg(full_unicode=False)
    strat = st.tuples(gen_syntax.exprs(task["depth"], cfg), st.integers(0, 2 ** 30))

    def fn(pair):
        t, sseed = pair
        nt = nontrivial(t)
        for mode in ("minimal", "full", "random"):
            case = {"term": to_json(t), "mode": mode, "style_seed": sseed}
            r = check_case(case)
            acc.case(key=digest(repr(t) + mode + (str(sseed) if mode == "random" else "")),
                     nontrivial=nt,
                     sample={"text": printer.render(t), "mode": mode} if mode == "minimal" else None)
            if r:
                acc.fail(r[0], case, r[1])
        kinds = {x[0] for x in walk(t)}
        for k in ("lambda", "call", "list", "path"):
            if k in kinds:
                acc.cls("has_" + k)
        if nt:
            acc.cls("nontrivial")

    hyp_run(strat, fn, task["n"], seed * 1000 + task["shard"])
