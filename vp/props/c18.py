"""C18 - type inference never reports a wrong type."""
import itertools

from hypothesis import strategies as st

from .. import gen_typed, lib, printer, spec_tables
from ..runner import digest, hyp_run
from ..terms import count_ops, from_json, ident, to_json, walk

PROPERTY_ID = "C18"
RULE = ("typed terms of every type from the typed grammar (type known by construction; all scalar functions "
        "with arguments of every admissible kind, nested to depth 3; one case in twelve is large along the size ladder: concat/substring chains over strings and lists nested 5-65 deep, literals of 15-40 digits, lists of up to 1001 items) plus an exhaustive table: every one of "
        "the 33 built-in functions x every admissible argument-kind combination (literal, field, call, "
        "arithmetic, list) and every operator class. Oracle: infer_type(parse(text)) is None or the node "
        "class of the expected type, taken from the harness's copy of the OData return-type table "
        "(argument-derived for concat/substring); typecheck(node, allowed) does not raise when the true type "
        "is allowed, and raises ArgumentTypeException when the node is a literal of a kind outside the "
        "allowed set. Long-lived process: 300-12000 (thorough: 100000) requests over a rotating set of calls of known type, trees dropped after use plus a few that stay alive, every answer judged against the table. "
        "Non-trivial: a call or operator at the root; distinct by text.")
ASSUMPTIONS = ["Edm numeric types are collapsed to Int (Int32/Int64) and Real (Double/Decimal) as the library's literal kinds do"]

F_ALL = gen_typed.Fragment(
    "all", funcs=gen_typed.STRING_FUNCS + ["year", "month", "day", "hour", "minute", "second", "date", "time",
                                           "round", "floor", "ceiling", "matchesPattern"],
    neg=True, bare_bool=True, null_left=True, dt_offsets="all", time_type=True)

TYPE_NODE = spec_tables.TYPE_NODE

# argument terms by harness type, several syntactic kinds each
ARGS = {
    "Str": [("lit", "str", "abc"), ident("s1"), ("call", "tolower", (), (ident("s1"),)),
            ("call", "concat", (), (ident("s1"), ("lit", "str", "x")))],
    "Int": [("lit", "int", "3"), ident("i1"), ("call", "length", (), (ident("s1"),)),
            ("bin", "add", ident("i1"), ("lit", "int", "1"))],
    "Real": [("lit", "float", "1.5"), ident("r1"), ("bin", "mul", ident("r1"), ("lit", "float", "2.0")),
             ("call", "round", (), (ident("r1"),))],
    "DateTime": [("lit", "datetime", "2020-01-01T00:00:00Z"), ident("t1"), ("call", "now", (), ())],
    "Date": [("lit", "date", "2020-01-01"), ident("d1"), ("call", "date", (), (ident("t1"),))],
    "Time": [("lit", "time", "12:00:00"), ("call", "time", (), (ident("t1"),))],
    "Duration": [("lit", "duration", "P1D"), ident("dur")],
    "Geo": [("lit", "geo", "POINT(1 2)"), ident("location")],
    "ListInt": [("list", (("lit", "int", "1"), ("lit", "int", "2"))), ident("nums"),
                ("call", "concat", (), (("list", (("lit", "int", "1"),)), ("list", (("lit", "int", "3"),))))],
    "ListStr": [("list", (("lit", "str", "a"),)), ident("names")],
    "Bool": [("lit", "bool", "true"), ident("b1"), ("cmp", "eq", ident("i1"), ("lit", "int", "1"))],
}

# (namespace, name) -> list of (argument types, result type)
SIGS = {
    ((), "concat"): [(["Str", "Str"], "Str"), (["ListInt", "ListInt"], "List")],
    ((), "contains"): [(["Str", "Str"], "Bool"), (["ListStr", "ListStr"], "Bool")],
    ((), "endswith"): [(["Str", "Str"], "Bool"), (["ListInt", "ListInt"], "Bool")],
    ((), "startswith"): [(["Str", "Str"], "Bool"), (["ListInt", "ListInt"], "Bool")],
    ((), "indexof"): [(["Str", "Str"], "Int"), (["ListInt", "ListInt"], "Int")],
    ((), "length"): [(["Str"], "Int"), (["ListInt"], "Int")],
    ((), "substring"): [(["Str", "Int"], "Str"), (["Str", "Int", "Int"], "Str"), (["ListInt", "Int"], "List"),
                        (["ListStr", "Int", "Int"], "List")],
    ((), "hassubset"): [(["ListInt", "ListInt"], "Bool")],
    ((), "hassubsequence"): [(["ListStr", "ListStr"], "Bool")],
    ((), "matchesPattern"): [(["Str", "Str"], "Bool")],
    ((), "tolower"): [(["Str"], "Str")], ((), "toupper"): [(["Str"], "Str")], ((), "trim"): [(["Str"], "Str")],
    ((), "date"): [(["DateTime"], "Date")],
    ((), "time"): [(["DateTime"], "Time")],
    ((), "day"): [(["DateTime"], "Int"), (["Date"], "Int")],
    ((), "month"): [(["DateTime"], "Int"), (["Date"], "Int")],
    ((), "year"): [(["DateTime"], "Int"), (["Date"], "Int")],
    ((), "hour"): [(["DateTime"], "Int"), (["Time"], "Int")],
    ((), "minute"): [(["DateTime"], "Int"), (["Time"], "Int")],
    ((), "second"): [(["DateTime"], "Int"), (["Time"], "Int")],
    ((), "fractionalseconds"): [(["DateTime"], "Real"), (["Time"], "Real")],
    ((), "totaloffsetminutes"): [(["DateTime"], "Int")],
    ((), "totalseconds"): [(["Duration"], "Real")],
    ((), "maxdatetime"): [([], "DateTime")], ((), "mindatetime"): [([], "DateTime")], ((), "now"): [([], "DateTime")],
    ((), "ceiling"): [(["Real"], "Real")], ((), "floor"): [(["Real"], "Real")], ((), "round"): [(["Real"], "Real")],
    (("geo",), "distance"): [(["Geo", "Geo"], "Real")],
    (("geo",), "intersects"): [(["Geo", "Geo"], "Bool")],
    (("geo",), "length"): [(["Geo"], "Real")],
}

ALL_LITERAL_NODES = ["Integer", "Float", "String", "Boolean", "Date", "Time", "DateTime", "Duration", "GUID",
                     "Geography", "Null", "List"]


def node_class(name):
    from odata_query import ast
    return getattr(ast, name)


def check_infer(text, expected_ty):
    """infer_type(parse(text)) must be None or the class for expected_ty."""
    from odata_query import typing as ty
    try:
        a = lib.parse(text)
    except Exception as e:
        return ("setup-parse:" + type(e).__name__, "%r: %s" % (text, e))
    try:
        got = ty.infer_type(a)
    except Exception as e:
        return ("infer-exception:" + lib.exc_bucket(e), "%r -> %s: %s" % (text, type(e).__name__, e))
    exp = node_class(TYPE_NODE[expected_ty])
    if got is not None and got is not exp:
        return ("wrong-type:%s-as-%s" % (expected_ty, getattr(got, "__name__", got)),
                "%r: inferred %s, actual type %s" % (text, getattr(got, "__name__", got), expected_ty))
    # typecheck never rejects when the true type is allowed
    others = tuple(node_class(n) for n in ALL_LITERAL_NODES if node_class(n) is not exp)[:3]
    for allowed in (exp, (exp,) + others, (others[0], exp)):
        try:
            ty.typecheck(a, allowed, "arg")
        except Exception as e:
            return ("typecheck-rejects-well-typed", "%r of type %s rejected for allowed=%r: %s" % (text, expected_ty, allowed, e))
    return None


def check_literal_rejection(kind, text):
    """typecheck raises ArgumentTypeException for a literal of a kind outside the allowed set."""
    from odata_query import exceptions, typing as ty
    a = lib.parse(text)
    mine = type(a)
    others = [node_class(n) for n in ALL_LITERAL_NODES if node_class(n) is not mine]
    import itertools
    alloweds = list(others) + [(o,) for o in others] + list(itertools.combinations(others, 2)) + [tuple(others)]
    for allowed in alloweds:
        try:
            ty.typecheck(a, allowed, "arg")
        except exceptions.ArgumentTypeException:
            continue
        except Exception as e:
            return ("typecheck-foreign-exception", "%r allowed=%r: %s: %s" % (text, allowed, type(e).__name__, e))
        return ("typecheck-accepts-wrong-literal", "%r (%s) accepted for allowed=%r" % (text, mine.__name__, allowed))
    try:
        ty.typecheck(a, mine, "arg")
        ty.typecheck(a, (others[0], mine), "arg")
    except Exception as e:
        return ("typecheck-rejects-well-typed", "%r rejected for its own kind: %s" % (text, e))
    return None


def check_backend_rejection(case):
    """The ORM backends type-check the arguments of contains/startswith/endswith: a literal of a kind
    other than String as the search text must be rejected with ArgumentTypeException."""
    from odata_query import exceptions
    from .. import db_orm
    text = "%s(s1, %s)" % (case["fn"], case["text"])
    outcomes = {}
    from odata_query.django import apply_odata_query as dj
    M = db_orm.django_models()
    S = db_orm.sqlalchemy_models()
    from odata_query.sqlalchemy import apply_odata_core, apply_odata_query as sa_orm
    for name, fn in (("django", lambda: dj(M.Item.objects, text).query.sql_with_params()),
                     ("sqlalchemy-orm", lambda: sa_orm(S.sa.select(S.Item), text).compile(S.engine)),
                     ("sqlalchemy-core", lambda: apply_odata_core(S.sa.select(S.Item.__table__), text).compile(S.engine))):
        try:
            fn()
        except exceptions.ArgumentTypeException:
            continue
        except Exception as e:
            return ("backend-typecheck:%s:other-exception:%s" % (name, type(e).__name__), "%r -> %s: %s" % (text, type(e).__name__, str(e)[:200]))
        return ("backend-typecheck:%s:accepts-wrong-literal" % name, "%r accepted although the search text is a %s literal" % (text, case["kind"]))
    return None


def check_custom_namespace(case):
    from odata_query import typing as ty
    text = printer.render(from_json(case["term"]))
    try:
        a = lib.parse(text)
    except Exception as e:
        return ("setup-parse:" + type(e).__name__, "%r: %s" % (text, e))
    try:
        got = ty.infer_type(a)
    except Exception as e:
        return ("infer-exception:" + lib.exc_bucket(e), "%r -> %s: %s" % (text, type(e).__name__, e))
    if got is not None:
        return ("wrong-type:custom-function-as-%s" % getattr(got, "__name__", got),
                "%r is a caller-defined function; inferred %s" % (text, getattr(got, "__name__", got)))
    for allowed in (node_class("String"), (node_class("Integer"), node_class("List"))):
        try:
            ty.typecheck(a, allowed, "arg")
        except Exception as e:
            return ("typecheck-rejects-unknown-type", "%r rejected for allowed=%r: %s" % (text, allowed, e))
    return None


def check_case(case):
    if case.get("mode") == "custom-namespace":
        return check_custom_namespace(case)
    if case.get("mode") == "history":
        return check_history(case["n"], case["seed"])
    if case.get("mode") == "backend-literal":
        return check_backend_rejection(case)
    if case.get("mode") == "literal":
        return check_literal_rejection(case["kind"], case["text"])
    t = from_json(case["term"])
    return check_infer(printer.render(t), case["type"])


def replay(case):
    return check_case(case)


def exhaustive_cases():
    for (ns, name), sigs in sorted(SIGS.items()):
        for argtys, res in sigs:
            pools = [ARGS[a] for a in argtys]
            for combo in itertools.product(*pools):
                t = ("call", name, ns, tuple(combo))
                rt = res
                yield {"term": to_json(t), "type": rt, "fn": ".".join(ns + (name,))}
    B = ARGS["Bool"]
    for op in ("and", "or"):
        for a, b in itertools.product(B, B):
            yield {"term": to_json(("bool", op, a, b)), "type": "Bool", "fn": op}
    for op in ("eq", "ne", "lt", "le", "gt", "ge"):
        for tyn in ("Int", "Str", "Real", "DateTime"):
            for a, b in itertools.product(ARGS[tyn], ARGS[tyn]):
                yield {"term": to_json(("cmp", op, a, b)), "type": "Bool", "fn": op}
    for a in ARGS["Int"]:
        yield {"term": to_json(("cmp", "in", a, ("list", (("lit", "int", "1"), ("lit", "int", "2"))))), "type": "Bool", "fn": "in"}
    for op in ("add", "sub", "mul", "div", "mod"):
        for a, b in itertools.product(ARGS["Int"], ARGS["Int"]):
            yield {"term": to_json(("bin", op, a, b)), "type": "Int", "fn": op}
        for a, b in itertools.product(ARGS["Real"], ARGS["Int"]):
            if op != "mod":
                yield {"term": to_json(("bin", op, a, b)), "type": "Real", "fn": op}
                yield {"term": to_json(("bin", op, b, a)), "type": "Real", "fn": op}
    for a in ARGS["DateTime"]:
        for d in ARGS["Duration"]:
            yield {"term": to_json(("bin", "add", a, d)), "type": "DateTime", "fn": "add"}
            yield {"term": to_json(("bin", "sub", a, d)), "type": "DateTime", "fn": "sub"}
        for b in ARGS["DateTime"]:
            yield {"term": to_json(("bin", "sub", a, b)), "type": "Duration", "fn": "sub"}
    for a in ARGS["Date"]:
        for b in ARGS["Date"]:
            yield {"term": to_json(("bin", "sub", a, b)), "type": "Duration", "fn": "sub"}
    for d in ARGS["Duration"]:
        for i in ARGS["Int"]:
            yield {"term": to_json(("bin", "mul", i, d)), "type": "Duration", "fn": "mul"}
            yield {"term": to_json(("bin", "mul", d, i)), "type": "Duration", "fn": "mul"}
    for a in B:
        yield {"term": to_json(("un", "not", a)), "type": "Bool", "fn": "not"}
    for a in ARGS["Int"]:
        yield {"term": to_json(("un", "neg", a)), "type": "Int", "fn": "neg"}
    lits = [("int", "5"), ("float", "1.5"), ("str", "'x'"), ("bool", "true"), ("date", "2020-01-01"),
            ("time", "12:00:00"), ("datetime", "2020-01-01T00:00:00Z"), ("duration", "duration'P1D'"),
            ("guid", "123e4567-e89b-12d3-a456-426614174000"), ("geo", "geography'POINT(1 2)'"), ("null", "null"),
            ("list", "(1, 2)")]
    for kind, text in lits:
        yield {"mode": "literal", "kind": kind, "text": text}
    for kind, text in lits:
        if kind == "str":
            continue
        for fn in ("contains", "startswith", "endswith"):
            yield {"mode": "backend-literal", "kind": kind, "text": text, "fn": fn}
    # functions in a caller's own namespace that merely share a name with a built-in: their return type is
    # not known to the library, so the only right answer is "unknown" (and typecheck must let them pass)
    for (ns, name), sigs in sorted(SIGS.items()):
        for cns in (("my",), ("stats", "v2"), ("Geo",), ("geography",)):
            argtys = sigs[0][0]
            args = tuple(ARGS[a][1 % len(ARGS[a])] for a in argtys)
            yield {"mode": "custom-namespace", "term": to_json(("call", name, cns, args)), "fn": ".".join(cns + (name,))}


TYPES = ["Int", "Real", "Str", "Bool", "DateTime", "Date", "Time"]


@st.composite
def scaled_cases(draw):
    """Terms that are large along one dimension of the size ladder, with the type still known by
    construction: chains of concat/substring over strings and lists nested 5-65 deep, integer and
    decimal literals of 15-40 digits, lists of up to 1001 items."""
    import random
    from ..gen_syntax import LADDER
    r = random.Random(draw(st.integers(0, 2 ** 30)))
    kind = draw(st.sampled_from(["chain", "chain", "chain", "digits", "list"]))
    if kind == "chain":
        d = draw(st.sampled_from(LADDER["nest"]))
        base_ty = draw(st.sampled_from(["Str", "ListInt", "ListStr"]))
        t = r.choice(ARGS[base_ty])
        for _ in range(d):
            k = r.randrange(5)
            if k == 0:
                t = ("call", "concat", (), (t, r.choice(ARGS[base_ty])))
            elif k == 1:
                t = ("call", "concat", (), (r.choice(ARGS[base_ty]), t))
            elif k == 2:
                t = ("call", "substring", (), (t, r.choice(ARGS["Int"])))
            elif k == 3:
                t = ("call", "substring", (), (t, r.choice(ARGS["Int"]), r.choice(ARGS["Int"])))
            elif base_ty == "Str":
                t = ("call", r.choice(["tolower", "toupper", "trim"]), (), (t,))
            else:
                t = ("call", "concat", (), (t, t)) if d <= 9 else ("call", "substring", (), (t, ("lit", "int", "0")))
        ty = "Str" if base_ty == "Str" else "List"
        w = draw(st.integers(0, 3))
        if w == 0:
            t, ty = ("call", "length", (), (t,)), "Int"
        elif w == 1:
            t, ty = ("call", "indexof", (), (t, r.choice(ARGS[base_ty]))), "Int"
        return {"term": to_json(t), "type": ty}
    if kind == "digits":
        n = draw(st.sampled_from(LADDER["digits"]))
        digs = r.choice("123456789") + "".join(r.choice("0123456789") for _ in range(n - 1))
        k = r.randrange(5)
        if k == 0:
            return {"term": to_json(("lit", "int", digs)), "type": "Int"}
        if k == 1:
            return {"term": to_json(("lit", "int", "-" + digs)), "type": "Int"}
        if k == 2:
            return {"term": to_json(("bin", "add", ("lit", "int", digs), ident("i1"))), "type": "Int"}
        if k == 3:
            return {"term": to_json(("lit", "float", digs[: n // 2] + "." + digs[n // 2:] + "5")), "type": "Real"}
        return {"term": to_json(("lit", "int", r.choice([str(2 ** 63 - 1), str(-2 ** 63), str(2 ** 63), str(10 ** 18), str(10 ** 19)]))),
                "type": "Int"}
    n = draw(st.sampled_from(LADDER["list"]))
    if r.random() < 0.5:
        items = tuple(("lit", "int", str(i)) for i in range(n))
    else:
        items = tuple(("lit", "str", "s%d" % i) for i in range(n))
    t = ("list", items)
    w = draw(st.integers(0, 3))
    if w == 0:
        return {"term": to_json(("call", "length", (), (t,))), "type": "Int"}
    if w == 1:
        return {"term": to_json(("call", "concat", (), (t, t))), "type": "List"}
    return {"term": to_json(t), "type": "List"}


HISTORY = [("concat('a', 'b')", "Str"), ("concat((1, 2), (3, 4))", "List"), ("substring((1, 2, 3), 1)", "List"),
           ("tolower('ABC')", "Str"), ("length('abc')", "Int"), ("contains('abc', 'b')", "Bool"), ("round(1.5)", "Real"),
           ("date(2020-01-01T10:00:00Z)", "Date"), ("now()", "DateTime"), ("year(2020-01-01)", "Int"),
           ("substring(concat(s1, 'x'), 1, 2)", "Str"), ("concat(substring((1, 2), 1), (3,))", "List"),
           ("time(t1)", "Time"), ("indexof(s1, 'a')", "Int"), ("floor(r1)", "Real"), ("geo.length(loc)", "Real"),
           ("length((1, 2))", "Int"), ("trim(concat('a', s1))", "Str")]


def check_history(n, seed):
    """A long-lived process: n requests over a rotating set of calls whose types are known, each tree
    dropped after use; a few trees stay alive and are asked again every round. Every answer is judged
    on its own against the table (never against an earlier answer)."""
    from odata_query import typing as ty
    hot = [(lib.parse(t), e) for t, e in HISTORY[:4]]
    for i in range(n):
        text, exp_ty = HISTORY[(i * 7 + i // 11 + seed) % len(HISTORY)]
        probes = [(lib.parse(text), exp_ty, text)] + [(a, e, "long-lived tree") for a, e in hot[i % 4:i % 4 + 1]]
        for a, e, what in probes:
            exp = node_class(TYPE_NODE[e])
            try:
                got = ty.infer_type(a)
            except Exception as ex_:
                return ("history:infer-exception:" + lib.exc_bucket(ex_), "request #%d of %d, %s: %s" % (i, n, what, ex_))
            if got is not None and got is not exp:
                return ("history:wrong-type:%s-as-%s" % (e, getattr(got, "__name__", got)),
                        "request #%d of %d: %s inferred as %s, actual type %s" % (i, n, what, getattr(got, "__name__", got), e))
            other = node_class("String") if e == "List" else node_class("List")
            try:
                ty.typecheck(a, exp, "arg")
            except Exception as ex_:
                return ("history:typecheck-rejects-well-typed", "request #%d of %d: %s of type %s rejected: %s" % (i, n, what, e, ex_))
        del probes
    return None


def plan(tier, seed, scale):
    K = 16
    tasks = [{"name": "exh", "kind": "exh"}]
    total = int((40000 if tier == "quick" else 400000) * scale)
    for i in range(K):
        tasks.append({"name": "rand-%d" % i, "kind": "rand", "n": max(total // K, 10), "shard": i})
    for n in ([300, 1100, 5000, 12000] if tier == "quick" else [300, 1100, 5000, 12000, 40000, 100000]):
        tasks.append({"name": "history-%d" % n, "kind": "history", "n": n})
    return tasks


def run_task(task, seed, acc):
    def one(case):
        r = check_case(case)
        if case.get("mode") in ("literal", "backend-literal", "custom-namespace"):
            acc.case(key=digest(case), nontrivial=True, sample=case if case["mode"] != "custom-namespace" else {"fn": case["fn"]})
            acc.cls({"literal": "literal_rejection", "backend-literal": "backend_literal_rejection",
                     "custom-namespace": "custom_namespace_function"}[case["mode"]])
        else:
            t = from_json(case["term"])
            nt = t[0] in ("call", "bin", "cmp", "bool", "un")
            acc.case(key=digest(printer.render(t)), nontrivial=nt,
                     sample={"expr": printer.render(t), "type": case["type"]})
            acc.cls("type_" + case["type"])
            for x in walk(t):
                if x[0] == "call":
                    acc.cls("fn_" + ".".join(x[2] + (x[1],)))
        if r:
            acc.fail(r[0], case, r[1])

    if task["kind"] == "history":
        case = {"mode": "history", "n": task["n"], "seed": seed}
        r = check_history(task["n"], seed)
        acc.case(key=digest(case), nontrivial=True, sample=case)
        acc.cls("history_requests", task["n"])
        if r:
            acc.fail(r[0], case, r[1])
        return
    if task["kind"] == "exh":
        for case in exhaustive_cases():
            one(case)
        acc.extra["exhaustive"] = True
        acc.extra["functions_in_table"] = len(SIGS)
        return
    small = st.sampled_from(TYPES).flatmap(
        lambda ty: gen_typed.expr(ty, 3, F_ALL).map(lambda t: {"term": to_json(t), "type": ty}))
    strat = st.one_of(*([small] * 11 + [scaled_cases()]))
    hyp_run(strat, one, task["n"], seed * 1000 + task["shard"])
