"""C14 - alias rewriting is exact substitution on field references only."""
import copy

from hypothesis import strategies as st

from .. import gen_syntax, lib, printer, shrink as shr, treeref
from ..decode import decode
from ..runner import digest, hyp_run
from ..terms import from_json, ident, to_json, walk, wellformed

PROPERTY_ID = "C14"
RULE = ("ASTs from the full-grammar generator (depth <= 3/4) x alias maps drawn from the tree: keys are "
        "identifiers, whole paths and owner prefixes that occur as field references, non-occurring keys, "
        "and keys equal to a function name, a named-parameter name or a lambda variable used in the tree (lambdas nest, re-binding a name or binding another one while the inner body still mentions the outer variable); "
        "targets are identifiers, paths and calls. Oracle: the harness's reference substitution on decoded "
        "terms; empty/non-matching map is the identity; the input tree is not modified; a fresh-name "
        "bijection followed by its inverse restores the input; caller-supplied lexer/parser give the same "
        "rewriter. Non-trivial: the map matches >= 1 field reference and the tree has a non-matching field "
        "or a colliding non-field name; distinct by (tree, map)."
        " Plus a coverage-guided campaign (atheris/libFuzzer mutating the byte buffer that Hypothesis decodes through the same strategy, the same oracle inside the target; quick 3000-4000 executions, thorough 4 x 100000-150000).")
ASSUMPTIONS = ["alias keys that are paths rooted at a lambda variable are outside the generated domain "
               "(the statement does not say whether such a path is a field reference)"]

TARGETS = [ident("t1"), ident("col_x"), ("path", ident("rel"), "name"),
           ("path", ("path", ident("r1"), "r2"), "leaf"),
           ("call", "tolower", (), (ident("raw"),)),
           ("call", "concat", (), (ident("first"), ident("last"))),
           ("call", "f", ("ns",), (ident("u"), ("lit", "int", "1")))]


def noncolliding_names(t):
    """Non-field names in t: function names, named-parameter names, lambda variables."""
    out = set()
    for x in walk(t):
        if x[0] == "call" and not x[2]:
            out.add(("fn", x[1]))
        elif x[0] == "named":
            out.add(("param", x[1]))
        elif x[0] == "lambda" and x[3]:
            out.add(("var", x[3]))
    return out


@st.composite
def cases(draw, depth):
    t = draw(gen_syntax.exprs(depth, gen_syntax.Cfg(full_unicode=False, namespaced_ids=True)))
    refs = treeref.field_refs(t)
    cands = []
    for r in refs:
        cands.extend(treeref.path_prefixes(r))
    cands = [c for c in cands if c[0] in ("id", "path")]
    special = [ident(n) for (_, n) in sorted(noncolliding_names(t))]
    keys = []
    n = draw(st.sampled_from([0, 1, 1, 1, 2, 2, 3]))
    for _ in range(n):
        src = draw(st.integers(0, 9))
        if src < 6 and cands:
            keys.append(draw(st.sampled_from(cands)))
        elif src < 8 and special:
            keys.append(draw(st.sampled_from(special)))
        else:
            keys.append(draw(st.sampled_from([ident("nomatch"), ("path", ident("no"), "match"), ident("zz", ("q",))])))
    amap = []
    seen = set()
    idkeys = [k for k in keys if k[0] == "id"]
    for k in keys:
        if k in seen:
            continue
        seen.add(k)
        tgt = draw(st.sampled_from(TARGETS))
        if idkeys and draw(st.integers(0, 3)) == 0:
            # a target that mentions another key of the same map (aliases are applied in one pass,
            # a replaced target is not rewritten again)
            other = draw(st.sampled_from(idkeys))
            tgt = other if draw(st.booleans()) else ("call", "tolower", (), (other,))
        amap.append([to_json(k), to_json(tgt)])
    reuse = draw(st.sampled_from([0] * 11 + [40, 300, 700]))
    return {"term": to_json(t), "map": amap, "reuse": reuse}


def bound_vars(t):
    return {x[3] for x in walk(t) if x[0] == "lambda" and x[3]}


def in_domain(t, amap):
    """Keys that are paths rooted at a lambda variable of the tree are outside the domain."""
    bv = bound_vars(t)
    for k in amap:
        if k[0] == "path":
            root = k
            while root[0] == "path":
                root = root[1]
            if root[1] in bv and not root[2]:
                return False
    return True


def check_case(case):
    from odata_query.grammar import ODataLexer, ODataParser
    from odata_query.rewrite import AliasRewriter
    t = from_json(case["term"])
    amap = {from_json(k): from_json(v) for k, v in case["map"]}
    if not in_domain(t, amap):
        return None
    text = printer.render(t)
    try:
        a = lib.parse(text)
    except Exception as e:
        return ("setup-parse:" + type(e).__name__, "%r: %s" % (text, e))
    before = decode(a)
    if before != t:
        return ("setup-decode", "%r decodes to %r (C05 matter)" % (text, before))
    snapshot = copy.deepcopy(a)
    str_map = {printer.render(k): printer.render(v) for k, v in amap.items()}
    try:
        rw = AliasRewriter(dict(str_map))
        out = rw.visit(a)
    except Exception as e:
        return ("rewriter-exception:" + lib.exc_bucket(e), "%r map=%r -> %s: %s" % (text, str_map, type(e).__name__, e))
    if decode(a) != before or a != snapshot:
        return ("input-mutated", "%r map=%r" % (text, str_map))
    try:
        got = decode(out)
    except Exception as e:
        return ("malformed-result", "%r map=%r -> %r (%s)" % (text, str_map, out, e))
    exp = treeref.substitute(t, amap)
    if got != exp:
        return ("substitution:" + diff_kind(t, exp, got, amap), "%r map=%r expected=%r got=%r" % (text, str_map, exp, got))
    if exp == t and out != a:
        return ("identity-not-equal", "%r map=%r" % (text, str_map))
    # caller-supplied lexer / parser behave the same
    try:
        out2 = AliasRewriter(dict(str_map), ODataLexer(), ODataParser()).visit(a)
    except Exception as e:
        return ("rewriter-exception-external-instances", "%r map=%r -> %s" % (text, str_map, e))
    if out2 != out:
        return ("external-instances-differ", "%r map=%r" % (text, str_map))
    if case.get("reuse"):
        return check_reuse(case, t, amap, str_map, text)
    return None


FILLER = ["a eq %d", "b lt %d and c gt 1", "name in ('x', 'y', '%d')", "contains(name, 'k%d')", "not (x eq %d)",
          "price add %d gt qty", "tags/any(e: e/name eq 't%d')", "a eq %d or b eq 2 or c eq 3"]


def check_reuse(case, t, amap, str_map, text):
    """One rewriter instance serves a long series of short-lived trees (thousands of nodes in all)
    between two rewrites of the case's own tree: every answer must be the one a fresh instance gives."""
    from odata_query.rewrite import AliasRewriter
    rw = AliasRewriter(dict(str_map))
    exp = treeref.substitute(t, amap)
    n = case["reuse"]
    try:
        first = decode(rw.visit(lib.parse(text)))
        for i in range(n):
            ft = decode(lib.parse(FILLER[i % len(FILLER)] % i))
            if not in_domain(ft, amap):
                continue
            got = decode(rw.visit(lib.parse(printer.render(ft))))
            want = treeref.substitute(ft, amap)
            if got != want:
                return ("reused-rewriter:filler-differs", "%r map=%r: after %d other trees, %r -> %r, expected %r" % (
                    text, str_map, i, printer.render(ft), got, want))
        last = decode(rw.visit(lib.parse(text)))
    except Exception as e:
        return ("reused-rewriter:exception:" + lib.exc_bucket(e), "%r map=%r -> %s: %s" % (text, str_map, type(e).__name__, e))
    if first != exp or last != exp:
        return ("reused-rewriter:differs", "%r map=%r after %d other trees: first=%r last=%r expected=%r" % (
            text, str_map, n, first, last, exp))
    return None


def diff_kind(t, exp, got, amap):
    """Which non-field name was rewritten (if that is what happened)."""
    names = {k[1] for k in amap if k[0] == "id"}
    fn_e = sorted((x[1], x[2]) for x in walk(exp) if x[0] == "call")
    try:
        fn_g = sorted((x[1], x[2]) for x in walk(got) if x[0] == "call")
    except Exception:
        return "other"
    if fn_e != fn_g and any(x[0] == "call" and x[1] in names and not x[2] for x in walk(t)):
        return "function-name-rewritten"
    pe = sorted(x[1] for x in walk(exp) if x[0] == "named")
    pg = sorted(x[1] for x in walk(got) if x[0] == "named")
    if pe != pg:
        return "parameter-name-rewritten"
    ve = sorted(str(x[3]) for x in walk(exp) if x[0] == "lambda")
    vg = sorted(str(x[3]) for x in walk(got) if x[0] == "lambda")
    if ve != vg:
        return "lambda-variable-rewritten"
    if any(x[0] == "lambda" and x[3] in names for x in walk(t)):
        return "lambda-variable-use-rewritten"
    return "other"


def check_inverse(case):
    """fresh-name bijection followed by its inverse restores the original."""
    from odata_query.rewrite import AliasRewriter
    t = from_json(case["term"])
    text = printer.render(t)
    a = lib.parse(text)
    roots = []
    for r in treeref.field_refs(t):
        root = r
        while root[0] == "path":
            root = root[1]
        if root[0] == "id" and root not in roots:
            roots.append(root)
    if not roots:
        return None
    fwd = {printer.render(r): "fresh_%d" % i for i, r in enumerate(roots)}
    inv = {v: k for k, v in fwd.items()}
    try:
        mid = AliasRewriter(fwd).visit(a)
        back = AliasRewriter(inv).visit(mid)
    except Exception as e:
        return ("inverse-exception:" + lib.exc_bucket(e), "%r fwd=%r: %s" % (text, fwd, e))
    if back != a:
        return ("inverse-law", "%r fwd=%r: back=%r" % (text, fwd, decode(back)))
    exp_mid = treeref.substitute(t, {r: ident("fresh_%d" % i) for i, r in enumerate(roots)})
    if decode(mid) != exp_mid:
        return ("substitution:bijection", "%r fwd=%r expected=%r got=%r" % (text, fwd, exp_mid, decode(mid)))
    return None


def run_all(case):
    r = check_case(case)
    if r:
        return r
    if case.get("inverse", True):
        return check_inverse(case)
    return None


def replay(case):
    return run_all(case)


def shrink(case, bucket):
    t = from_json(case["term"])

    def still_t(c):
        if not wellformed(c):
            return False
        r = run_all(dict(case, term=to_json(c)))
        return bool(r) and r[0] == bucket

    t2 = shr.shrink_term(t, still_t, budget=250)
    case = dict(case, term=to_json(t2))

    def still_m(m):
        r = run_all(dict(case, map=m))
        return bool(r) and r[0] == bucket

    return dict(case, map=shr.shrink_list(case["map"], still_m))


def nontrivial(case):
    t = from_json(case["term"])
    amap = {from_json(k): from_json(v) for k, v in case["map"]}
    exp = treeref.substitute(t, amap)
    if exp == t:
        return False
    refs = treeref.field_refs(t)
    unmatched = any(not any(p in amap for p in treeref.path_prefixes(r)) for r in refs)
    names = {k[1] for k in amap if k[0] == "id"}
    collide = any(n in names for (_, n) in noncolliding_names(t))
    return unmatched or collide


_X = ident("x")
FIXED = [
    # nested lambdas that re-use the variable name; the outer variable is used after the inner lambda
    (("lambda", ident("items"), "any", "x",
      ("bool", "and", ("lambda", ("path", _X, "parts"), "any", "x", ("cmp", "eq", ("path", _X, "n"), ("lit", "int", "1"))),
       ("cmp", "eq", ("path", _X, "w"), _X))), [(_X, ident("outer_x"))]),
    (("bool", "or", ("lambda", ident("items"), "all", "x",
                     ("bool", "or", ("lambda", ("path", _X, "tags"), "all", "x", ("cmp", "ne", _X, ("lit", "str", "a"))),
                      ("cmp", "gt", _X, ("lit", "int", "2")))), ("cmp", "eq", _X, ("lit", "int", "3"))),
     [(_X, ("path", ident("rel"), "x2"))]),
    # one alias key is a proper prefix of another: the longest match wins
    (("cmp", "eq", ("path", ident("author"), "name"), ("path", ("path", ident("author"), "name"), "first")),
     [(ident("author"), ident("writer")), (("path", ident("author"), "name"), ident("author_name"))]),
    # (filter term, map) pairs for the collisions the quantifier names explicitly
    (("cmp", "eq", ("call", "date", (), (ident("created"),)), ident("date")), [(ident("date"), ident("created_on"))]),
    (("cmp", "gt", ("call", "length", (), (ident("name"),)), ident("length")), [(ident("length"), ident("len_col"))]),
    (("cmp", "eq", ("call", "year", (), (ident("time"),)), ("call", "year", (), (ident("year"),))),
     [(ident("year"), ident("y")), (ident("time"), ident("ts"))]),
    (("call", "f", ("ns",), (("named", "p", ident("p")), ("named", "q", ident("x")))), [(ident("p"), ident("col_p"))]),
    (("bool", "and", ("lambda", ident("items"), "any", "x", ("cmp", "eq", ("path", ident("x"), "n"), ident("x"))),
      ("cmp", "eq", ident("x"), ("lit", "int", "1"))), [(ident("x"), ident("outer_x"))]),
    (("lambda", ("path", ident("a"), "items"), "all", "v", ("cmp", "gt", ("path", ident("v"), "a"), ident("a"))),
     [(ident("a"), ("path", ident("rel"), "b")), (("path", ident("a"), "items"), ident("coll"))]),
    # nested lambdas with different variables: the inner body mentions the outer variable, whose name is a key
    (("lambda", ident("orders"), "any", "a",
      ("lambda", ("path", ident("a"), "lines"), "all", "l",
       ("bool", "and", ("cmp", "gt", ("path", ident("l"), "qty"), ("path", ident("a"), "minimum")),
        ("cmp", "lt", ("path", ident("l"), "sum"), ident("total"))))),
     [(ident("a"), ident("author")), (ident("total"), ("path", ident("price"), "amount"))]),
    (("lambda", ident("orders"), "any", "a",
      ("bool", "and",
       ("lambda", ("path", ident("a"), "lines"), "any", "l",
        ("lambda", ("path", ident("l"), "parts"), "all", "p",
         ("bool", "or", ("cmp", "eq", ident("p"), ident("a")), ("cmp", "eq", ("path", ident("l"), "n"), ident("l"))))),
       ("cmp", "eq", ident("a"), ident("l")))),
     [(ident("a"), ident("author")), (ident("l"), ident("line_col")), (ident("p"), ident("part_col"))]),
]


def fuzz_target():
    """(strategy, fn) for the coverage-guided campaign (vp.fuzz_prop)."""
    def fn(case):
        case = dict(case, reuse=0)
        r = run_all(case)
        return (r[0], r[1], case) if r else None
    return cases(3), fn


def plan(tier, seed, scale):
    K = 16
    total = int((10000 if tier == "quick" else 100000) * scale)
    tasks = [{"name": "fixed", "kind": "fixed"}]
    for i in range(1 if tier == "quick" else 4):
        tasks.append({"name": "covfuzz-%d" % i, "kind": "covfuzz", "shard": i,
                      "runs": int((3000 if tier == "quick" else 100000) * scale)})
    for i in range(K):
        tasks.append({"name": "rand-%d" % i, "kind": "rand", "n": max(total // K, 10), "shard": i,
                      "depth": 3 if tier == "quick" else 4})
    return tasks


def run_task(task, seed, acc):
    def one(case):
        r = run_all(case)
        nt = nontrivial(case)
        acc.case(key=digest(case), nontrivial=nt,
                 sample={"filter": printer.render(from_json(case["term"])),
                         "aliases": {printer.render(from_json(k)): printer.render(from_json(v)) for k, v in case["map"]}})
        if nt:
            acc.cls("map_matches_and_tree_has_other_names")
        t = from_json(case["term"])
        names = {k[1] for k, _ in [(from_json(k), v) for k, v in case["map"]] if k[0] == "id"}
        for kind, n in noncolliding_names(t):
            if n in names:
                acc.cls("key_collides_with_" + kind)
        if r:
            acc.fail(r[0], case, r[1])

    if task["kind"] == "covfuzz":
        from ..runner import run_covfuzz
        run_covfuzz(__name__, task, seed, acc)
        return
    if task["kind"] == "fixed":
        for t, m in FIXED:
            one({"term": to_json(t), "map": [[to_json(k), to_json(v)] for k, v in m]})
        return
    hyp_run(cases(task["depth"]), one, task["n"], seed * 1000 + task["shard"])
