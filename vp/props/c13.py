"""C13 - AST -> OData text -> AST is the identity (and rendering is a fixpoint)."""
import itertools

from hypothesis import strategies as st

from .. import gen_syntax, lib, printer, shrink as shr
from ..decode import DecodeError, decode
from ..runner import digest, hyp_run
from ..terms import from_json, ident, to_json, walk, wellformed
from .c05 import first_diff

PROPERTY_ID = "C13"
RULE = ("ASTs in the parser's image: a = parse(print(t)) for t from (i) every operator shape with "
        "1 operator node x every pair of leaf kinds and every 2-operator shape x every leaf kind "
        "at each single position (17 leaf kinds: identifier, namespaced identifier, path, all 11 "
        "literal kinds, call, singleton list, 2-list, lambda) and (ii) random full-grammar trees to "
        "depth 4 (5) with arbitrary Unicode string contents. Oracle: parse(render(a)) == a "
        "(dataclass equality and decoded terms) and render(parse(render(a))) == render(a). "
        "Non-trivial: contains a quote in a string, a singleton list, a right-nested "
        "same-precedence operator, a unary operator over a composite, a named parameter, or a "
        "literal kind other than int/string/date; distinct by decoded term."
        " Plus a coverage-guided campaign (atheris/libFuzzer mutating the byte buffer that Hypothesis decodes through the same strategy, the same oracle inside the target; quick 3000-4000 executions, thorough 4 x 100000-150000).")
ASSUMPTIONS = ["the AST under test is obtained by parsing printed text, so it is in the parser's image",
               "C05 establishes that parse(print(t)) decodes to t"]

LEAF_KINDS = [
    ident("a"), ident("f", ("ns",)), ("path", ("path", ident("a"), "b"), "c"),
    ("lit", "null", ""), ("lit", "int", "-3"), ("lit", "float", "2.5e-2"), ("lit", "bool", "true"),
    ("lit", "str", "O'Neil ''x"), ("lit", "geo", "POINT(1 2)"),
    ("lit", "guid", "123e4567-e89b-12d3-a456-426614174000"), ("lit", "date", "2020-01-01"),
    ("lit", "time", "12:30:15.123"), ("lit", "datetime", "2019-12-31T23:59:59.999+01:00"),
    ("lit", "duration", "-P1Y2M3DT4H5M6.5S"),
    ("call", "f", ("x",), (("named", "p", ("lit", "int", "1")), ("named", "q", ident("b")))),
    ("list", (("lit", "int", "1"),)), ("list", (("lit", "str", "a"), ident("b"))),
    ("lambda", ident("c"), "any", "x", ("cmp", "eq", ("path", ident("x"), "n"), ("lit", "int", "1"))),
]


def nontrivial(t):
    from ..printer import PREC
    for x in walk(t):
        k = x[0]
        if k == "lit" and (x[1] not in ("int", "str", "date") or "'" in x[2]):
            return True
        if k == "list" and len(x[1]) == 1:
            return True
        if k == "named":
            return True
        if k == "un" and x[2][0] in ("bin", "cmp", "bool", "un"):
            return True
        if k in ("bin", "cmp", "bool") and x[3][0] in ("bin", "cmp", "bool") and \
                PREC[x[3][1]] == PREC[x[1]]:
            return True
    return False


def inorder(t):
    """Leaves and operator labels in source order (grouping forgotten)."""
    k = t[0]
    if k in ("bin", "cmp", "bool"):
        return inorder(t[2]) + [t[1]] + inorder(t[3])
    if k == "un":
        return [t[1]] + inorder(t[2])
    return [t]


def mismatch_kind(a, b):
    if inorder(a) == inorder(b):
        return "grouping"
    fd = first_diff(a, b).split("|")[0].split(".")
    return "content:" + fd[0] + ("." + fd[1] if fd[0] == "lit" and len(fd) > 1 else "")


def check_term(t):
    """None or (bucket, detail)."""
    from odata_query.roundtrip import AstToODataVisitor
    src = printer.render(t)
    try:
        a = lib.parse(src)
    except Exception as e:
        return ("setup-parse:" + lib.exc_bucket(e), "source %r does not parse (C05/C10 matter): %s" % (src, e))
    try:
        text = AstToODataVisitor().visit(a)
    except Exception as e:
        return ("render-exception:" + lib.exc_bucket(e), "source=%r -> %s: %s" % (src, type(e).__name__, e))
    if not isinstance(text, str):
        return ("render-nonstring", "source=%r -> %r" % (src, text))
    try:
        b = lib.parse_plain(text)     # parsed here and now, wherever `a` came from
    except Exception as e:
        return ("reparse-exception:" + type(e).__name__,
                "source=%r rendered=%r -> %s: %s" % (src, text, type(e).__name__, e))
    try:
        da, db = decode(a), decode(b)
    except DecodeError as e:
        return ("malformed-ast", "source=%r rendered=%r: %s" % (src, text, e))
    if da != db or a != b:
        return ("mismatch:" + mismatch_kind(da, db), "source=%r rendered=%r expected=%r got=%r" % (src, text, da, db))
    if b != a or _hash(a) != _hash(b):
        return ("equal-trees-compare-or-hash-differently", "source=%r: the tree and parse(render(tree)) decode alike but are not equal both ways / hash differently" % src)
    try:
        text2 = AstToODataVisitor().visit(b)
    except Exception as e:
        return ("render2-exception:" + lib.exc_bucket(e), "rendered=%r" % text)
    if text2 != text:
        return ("not-a-fixpoint", "render=%r render(parse(render))=%r" % (text, text2))
    return None


def _hash(a):
    try:
        return hash(a)
    except TypeError:      # nodes that hold lists are not hashable
        return None


def replay(case):
    return check_term(from_json(case["term"]))


def shrink(case, bucket):
    t = from_json(case["term"])

    def still(c):
        if not wellformed(c):
            return False
        r = check_term(c)
        return bool(r) and r[0] == bucket

    return {"term": to_json(shr.shrink_term(t, still, budget=300))}


def exhaustive_terms():
    for s in gen_syntax.shapes(1):
        n = sum(1 for x in walk(s) if x == gen_syntax.LEAF)
        for combo in itertools.product(LEAF_KINDS, repeat=n):
            yield gen_syntax.label(s, combo)
    for s in gen_syntax.shapes(2):
        n = sum(1 for x in walk(s) if x == gen_syntax.LEAF)
        base = [ident(nm) for nm in gen_syntax.NAMES[:n]]
        for pos in range(n):
            for lf in LEAF_KINDS:
                names = list(base)
                names[pos] = lf
                yield gen_syntax.label(s, names)


def fuzz_target():
    """(strategy, fn) for the coverage-guided campaign (vp.fuzz_prop)."""
    def fn(t):
        r = check_term(t)
        return (r[0], r[1], {"term": to_json(t)}) if r else None
    return gen_syntax.exprs(4, gen_syntax.Cfg(full_unicode=True)), fn


def plan(tier, seed, scale):
    K = 16
    tasks = [{"name": "exh-%d" % i, "kind": "exh", "i": i, "k": K} for i in range(K)]
    for i in range(1 if tier == "quick" else 4):
        tasks.append({"name": "covfuzz-%d" % i, "kind": "covfuzz", "shard": i,
                      "runs": int((4000 if tier == "quick" else 150000) * scale)})
    total = int((16000 if tier == "quick" else 150000) * scale)
    for i in range(K):
        tasks.append({"name": "rand-%d" % i, "kind": "rand", "n": max(total // K, 10),
                      "depth": 4 if tier == "quick" else 5, "shard": i})
    return tasks


def run_task(task, seed, acc):
    def one(t):
        r = check_term(t)
        nt = nontrivial(t)
        acc.case(key=digest(repr(t)), nontrivial=nt, sample={"source": printer.render(t)})
        if nt:
            acc.cls("nontrivial")
        if r:
            acc.fail(r[0], {"term": to_json(t)}, r[1])

    if task["kind"] == "covfuzz":
        from ..runner import run_covfuzz
        run_covfuzz(__name__, task, seed, acc)
        return
    if task["kind"] == "exh":
        for idx, t in enumerate(exhaustive_terms()):
            if idx % task["k"] == task["i"]:
                one(t)
        acc.extra["exhaustive"] = True
        return
    cfg = gen_syntax.Cfg(full_unicode=True)
    hyp_run(gen_syntax.exprs(task["depth"], cfg), one, task["n"], seed * 1000 + task["shard"])
