"""C02 - Django apply_odata_query returns exactly the objects the filter denotes."""
from hypothesis import strategies as st

from .. import db_orm, gen_typed, lib, printer, semcheck
from ..runner import digest, hyp_run, known_ids
from ..terms import count_ops, from_json, to_json, walk
from . import c01

PROPERTY_ID = "C02"
RULE = ("Bool-typed filters of the Django fragment from the typed grammar (as C01 without unary minus, plus "
        "second/time/round/floor/ceiling/matchesPattern), depth <= 4 (5), three parenthesisation styles, x 1-6 "
        "rows of the adversarial domain loaded through the ORM into in-memory SQLite. Oracle: ids of "
        "apply_odata_query(Item.objects, filter) vs the reference evaluator on decided rows; a library "
        "exception on a fragment filter or any foreign exception is a violation. Non-trivial: >= 2 "
        "operator/function nodes and >= 1 decided row; distinct by (filter text, rows)."
        " Every case is followed, in the same process, by its look-alike twins (string-literal case swapped, blanks doubled); rows get needle-derived confuser strings; literal-op-literal arithmetic is generated. Two metamorphic relations that need no reading of div and mod: every case is followed by companions in which one row's own integer values replace the Int columns (that row must fare alike), and an exhaustive sweep (operator x a x b of either sign x 6 shapes, both operand orders) requires the column form restricted to the rows with i2 = a to select what the all-literal form selects there.")
ASSUMPTIONS = c01.ASSUMPTIONS + ["Django USE_TZ=True/UTC; date-time literals carry Z or an offset",
                                 "SQLite is the only engine"]

DJ_FUNCS = gen_typed.STRING_FUNCS + ["year", "month", "day", "hour", "minute", "second", "date", "time",
                                     "round", "floor", "ceiling", "matchesPattern"]


def fragment():
    k = known_ids(PROPERTY_ID)
    return gen_typed.Fragment("django", funcs=DJ_FUNCS, neg=False, bare_bool=False,
                              bare_bool_fn=True, null_left=True, dt_offsets="all")


def check_case(case, fenced=True):
    from odata_query import exceptions
    from odata_query.django import apply_odata_query
    t = from_json(case["term"])
    text = printer.render(t, c01.style_of(case))
    M = db_orm.django_load({"items": case["rows"]})
    try:
        qs = apply_odata_query(M.Item.objects, text)
        ids = list(qs.values_list("id", flat=True))
    except exceptions.ODataException as e:
        return ("refused:" + type(e).__name__, "%r -> %s: %s" % (text, type(e).__name__, e))
    except Exception as e:
        if lib.engine_limit(e):
            case["_stats"] = {"decided": 0, "undecided": 0, "engine_limit": 1}
            return None
        return ("foreign:" + _bucket(e), "%r -> %s: %s" % (text, type(e).__name__, str(e)[:300]))
    # the documented three-step style: parse, optionally modify the tree, visitor, annotate, filter
    try:
        from odata_query.django.django_q import AstToDjangoQVisitor
        a = lib.parse(text)
        if len(text) % 2 == 0:
            from odata_query.rewrite import AliasRewriter
            a = AliasRewriter({"zz_not_a_field": "zz/other"}).visit(a)
        v = AstToDjangoQVisitor(M.Item)
        q = v.visit(a)
        qs2 = M.Item.objects.all()
        if v.queryset_annotations:
            qs2 = qs2.annotate(**v.queryset_annotations)
        ids2 = list(qs2.filter(q).values_list("id", flat=True))
    except Exception as e:
        if lib.engine_limit(e):
            case["_stats"] = {"decided": 0, "undecided": 0, "engine_limit": 1}
            return None
        return ("visitor-style:" + ("refused:" + type(e).__name__ if isinstance(e, exceptions.ODataException) else "foreign:" + _bucket(e)),
                "%r accepted by the shorthand but the visitor used directly -> %s: %s" % (text, type(e).__name__, str(e)[:300]))
    if sorted(ids2) != sorted(ids):
        return ("entry-styles-differ", "%r: shorthand selects %r, visitor used directly selects %r" % (text, sorted(ids), sorted(ids2)))
    bad, stats = semcheck.compare(t, case["rows"], set(ids), fences=(set(known_ids(PROPERTY_ID)) if fenced else set()) | {"int-div-truncates"})
    case["_stats"] = stats
    if bad:
        try:
            sql = str(qs.query)
        except Exception:
            sql = "?"
        return (bad[0], "%r -> %s ; %s" % (text, sql[:400], bad[1]))
    # metamorphic companion: the row's own integer values written as literals must not change the row's fate
    lit = {"ran": 0, "skipped": 0}
    for i, t2 in semcheck.literalised(t, case["rows"], case.get("style_seed", 0)):
        text2 = printer.render(t2, c01.style_of(case))
        try:
            ids_l = set(apply_odata_query(M.Item.objects, text2).values_list("id", flat=True))
        except Exception:
            lit["skipped"] += 1        # the companion may leave the supported fragment: nothing is decided
            continue
        lit["ran"] += 1
        if ((i + 1) in ids_l) != ((i + 1) in set(ids)):
            return ("literalised-row-differs", "row %d %r: %r %s it, but with its integer values as literals %r %s it" % (
                i + 1, case["rows"][i], text, "selects" if (i + 1) in set(ids) else "does not select", text2,
                "selects" if (i + 1) in ids_l else "does not select"))
    case["_stats"]["literalised_ran"] = lit["ran"]
    case["_stats"]["literalised_skipped"] = lit["skipped"]
    return None


def _bucket(e):
    fr = lib.innermost_frame(e)
    return "%s@%s" % (type(e).__name__, fr)


def check_with_twins(case, fenced=True):
    """The case itself, then its look-alike twins in the same process (state carried across calls)."""
    r = check_case(case, fenced)
    if r:
        return r
    for t2 in semcheck.lookalike_twins(from_json(case["term"])):
        c2 = {k: v for k, v in case.items() if not k.startswith("_")}
        c2["term"] = to_json(t2)
        r = check_case(c2, fenced)
        if r:
            return ("after-lookalike:" + r[0], "after %r: %s" % (printer.render(from_json(case["term"])), r[1]))
    return None


def replay(case):
    if "sweep" in case:
        return check_sweep(case)
    return check_with_twins(dict(case), fenced=False)


def signature(case):
    if "sweep" in case:
        return "sweep"
    return c01.signature(case)


def shrink(case, bucket):
    if "sweep" in case:
        return case
    case = {k: v for k, v in case.items() if not k.startswith("_")}
    return semcheck.shrink_case(case, bucket, fragment(), lambda c: check_with_twins(dict(c)), budget=200)


SWEEP_A = [-7, -3, -1, 0, 1, 3, 7, 8]
SWEEP_B = [-3, -2, -1, 0, 1, 2, 3]
SWEEP_SHAPES = ["i1 eq %(x)s %(op)s %(b)s", "i1 eq %(b)s %(op)s %(x)s", "i1 in (%(x)s %(op)s %(b)s, 100)",
                "not (i1 ne %(x)s %(op)s %(b)s)", "%(x)s %(op)s %(b)s eq i1", "i1 add 1 gt %(x)s %(op)s %(b)s"]


def sweep_rows():
    rows = []
    for a in SWEEP_A:
        for v in range(-25, 26):
            rows.append({"i1": v, "i2": a, "r1": 0.5, "s1": "a", "s2": "b", "b1": True,
                         "t1": gen_typed.DT_GRID[0], "d1": gen_typed.DATE_GRID[0]})
    return rows


def run_sweep(acc, part, parts):
    """Exhaustive metamorphic sweep: `<shape over i2 OP b>` restricted to the rows where i2 = a must select what
    `<shape over a OP b>` (both operands literal) selects among those rows - for every operator, small a and b of
    either sign, operand order and six surrounding shapes. Whatever reading a backend gives to div and mod on
    negative or inexact operands, it must not depend on whether an operand is written as a column or a literal."""
    from odata_query.django import apply_odata_query
    rows = sweep_rows()
    M = db_orm.django_load({"items": rows})
    by_a = {a: {i + 1 for i, r in enumerate(rows) if r["i2"] == a} for a in SWEEP_A}
    k = 0
    for op in ("add", "sub", "mul", "div", "mod"):
        for shape in SWEEP_SHAPES:
            for b in SWEEP_B:
                k += 1
                if k % parts != part:
                    continue
                col_text = shape % {"x": "i2", "op": op, "b": b}
                try:
                    col_ids = set(apply_odata_query(M.Item.objects, col_text).values_list("id", flat=True))
                except Exception as e:
                    acc.cls("sweep_column_form_refused")
                    continue
                for a in SWEEP_A:
                    lit_text = shape % {"x": a, "op": op, "b": b}
                    case = {"sweep": [col_text, lit_text, a]}
                    try:
                        lit_ids = set(apply_odata_query(M.Item.objects, lit_text).values_list("id", flat=True))
                    except Exception as e:
                        acc.cls("sweep_literal_form_refused")
                        continue
                    nt = op in ("div", "mod") and (a < 0 or b < 0)
                    acc.case(key=digest(case["sweep"]), nontrivial=nt, sample={"column_form": col_text, "literal_form": lit_text, "i2": a})
                    acc.cls("sweep_pairs")
                    if (col_ids & by_a[a]) != (lit_ids & by_a[a]):
                        acc.fail("literal-vs-column:" + op, case,
                                 "%r selects ids %r among the rows with i2 = %d, %r selects %r" % (
                                     col_text, sorted(col_ids & by_a[a])[:6], a, lit_text, sorted(lit_ids & by_a[a])[:6]))


def check_sweep(case):
    from odata_query.django import apply_odata_query
    col_text, lit_text, a = case["sweep"]
    rows = sweep_rows()
    M = db_orm.django_load({"items": rows})
    mine = {i + 1 for i, r in enumerate(rows) if r["i2"] == a}
    col_ids = set(apply_odata_query(M.Item.objects, col_text).values_list("id", flat=True)) & mine
    lit_ids = set(apply_odata_query(M.Item.objects, lit_text).values_list("id", flat=True)) & mine
    if col_ids != lit_ids:
        op = lit_text.replace("(", " ").split()
        op = [w for w in op if w in ("add", "sub", "mul", "div", "mod")]
        return ("literal-vs-column:" + (op[-1] if op else "?"), "%r -> %r ; %r -> %r" % (col_text, sorted(col_ids)[:6], lit_text, sorted(lit_ids)[:6]))
    return None


def plan(tier, seed, scale):
    K = 16
    total = int((12000 if tier == "quick" else 120000) * scale)
    return [{"name": "sweep-%d" % i, "kind": "sweep", "part": i, "parts": 4} for i in range(4)] + [{"name": "rand-%d" % i, "kind": "rand", "n": max(total // K, 10), "shard": i,
             "depth": 4 if tier == "quick" else 5} for i in range(K)]


def run_task(task, seed, acc):
    if task["kind"] == "sweep":
        run_sweep(acc, task["part"], task["parts"])
        return
    Fg = fragment()

    def one(case):
        t = from_json(case["term"])
        r = check_with_twins(case)
        stats = case.pop("_stats", {"decided": 0, "undecided": 0})
        nt = count_ops(t) >= 2 and stats.get("decided", 0) >= 1
        acc.case(key=digest([printer.render(t, c01.style_of(case)), case["rows"]]), nontrivial=nt,
                 sample={"filter": printer.render(t, c01.style_of(case)), "rows": case["rows"][:2]})
        acc.cls("rows_decided", stats.get("decided", 0))
        acc.cls("rows_undecided", stats.get("undecided", 0))
        acc.cls("rows_selected", stats.get("selected", 0))
        acc.cls("rows_excluded_by_known_finding", stats.get("excluded_by_known_finding", 0))
        acc.cls("filters_beyond_an_engine_limit", stats.get("engine_limit", 0))
        acc.cls("literalised_companions_run", stats.get("literalised_ran", 0))
        acc.cls("literalised_companions_outside_fragment", stats.get("literalised_skipped", 0))
        for c in c01.classes_of(t, case["rows"]):
            acc.cls(c)
        if r:
            acc.fail(r[0], case, r[1])

    strat = st.tuples(gen_typed.pred(task["depth"], Fg), gen_typed.rows_strategy(),
                      st.sampled_from(["minimal", "minimal", "full", "redundant"]), st.integers(0, 2 ** 20))

    def fn(tup):
        t, rows, style, sseed = tup
        one({"term": to_json(t), "rows": semcheck.confuse_rows(t, rows, sseed), "style": style, "style_seed": sseed})

    hyp_run(strat, fn, task["n"], seed * 1000 + task["shard"])
