"""C02 - Django apply_odata_query returns exactly the objects the filter denotes."""
from hypothesis import strategies as st

from .. import db_orm, gen_typed, lib, printer, semcheck
from ..runner import digest, hyp_run, known_ids
from ..terms import count_ops, from_json, to_json, walk
from . import c01

PROPERTY_ID = "C02"
RULE = ("Bool-typed filters of the Django fragment from the typed grammar (as C01 without unary minus, plus "
        "second/time/round/floor/ceiling/matchesPattern), depth <= 4 (5), three parenthesisation styles, x 1-6 "
        "rows of the adversarial domain loaded through the ORM into in-memory SQLite. Oracle: ids of "
        "apply_odata_query(Item.objects, filter) vs the reference evaluator on decided rows; a library "
        "exception on a fragment filter or any foreign exception is a violation. Non-trivial: >= 2 "
        "operator/function nodes and >= 1 decided row; distinct by (filter text, rows)."
        " Every case is followed, in the same process, by its look-alike twins (string-literal case swapped, blanks doubled); rows get needle-derived confuser strings; literal-op-literal arithmetic is generated.")
ASSUMPTIONS = c01.ASSUMPTIONS + ["Django USE_TZ=True/UTC; date-time literals carry Z or an offset",
                                 "SQLite is the only engine"]

DJ_FUNCS = gen_typed.STRING_FUNCS + ["year", "month", "day", "hour", "minute", "second", "date", "time",
                                     "round", "floor", "ceiling", "matchesPattern"]


def fragment():
    k = known_ids(PROPERTY_ID)
    return gen_typed.Fragment("django", funcs=DJ_FUNCS, neg=False, bare_bool=False,
                              bare_bool_fn=True, null_left=True, dt_offsets="all")


def check_case(case, fenced=True):
    from odata_query import exceptions
    from odata_query.django import apply_odata_query
    t = from_json(case["term"])
    text = printer.render(t, c01.style_of(case))
    M = db_orm.django_load({"items": case["rows"]})
    try:
        qs = apply_odata_query(M.Item.objects, text)
        ids = list(qs.values_list("id", flat=True))
    except exceptions.ODataException as e:
        return ("refused:" + type(e).__name__, "%r -> %s: %s" % (text, type(e).__name__, e))
    except Exception as e:
        if lib.engine_limit(e):
            case["_stats"] = {"decided": 0, "undecided": 0, "engine_limit": 1}
            return None
        return ("foreign:" + _bucket(e), "%r -> %s: %s" % (text, type(e).__name__, str(e)[:300]))
    # the documented three-step style: parse, optionally modify the tree, visitor, annotate, filter
    try:
        from odata_query.django.django_q import AstToDjangoQVisitor
        a = lib.parse(text)
        if len(text) % 2 == 0:
            from odata_query.rewrite import AliasRewriter
            a = AliasRewriter({"zz_not_a_field": "zz/other"}).visit(a)
        v = AstToDjangoQVisitor(M.Item)
        q = v.visit(a)
        qs2 = M.Item.objects.all()
        if v.queryset_annotations:
            qs2 = qs2.annotate(**v.queryset_annotations)
        ids2 = list(qs2.filter(q).values_list("id", flat=True))
    except Exception as e:
        if lib.engine_limit(e):
            case["_stats"] = {"decided": 0, "undecided": 0, "engine_limit": 1}
            return None
        return ("visitor-style:" + ("refused:" + type(e).__name__ if isinstance(e, exceptions.ODataException) else "foreign:" + _bucket(e)),
                "%r accepted by the shorthand but the visitor used directly -> %s: %s" % (text, type(e).__name__, str(e)[:300]))
    if sorted(ids2) != sorted(ids):
        return ("entry-styles-differ", "%r: shorthand selects %r, visitor used directly selects %r" % (text, sorted(ids), sorted(ids2)))
    bad, stats = semcheck.compare(t, case["rows"], set(ids), fences=(set(known_ids(PROPERTY_ID)) if fenced else set()) | {"int-div-truncates"})
    case["_stats"] = stats
    if bad:
        try:
            sql = str(qs.query)
        except Exception:
            sql = "?"
        return (bad[0], "%r -> %s ; %s" % (text, sql[:400], bad[1]))
    return None


def _bucket(e):
    fr = lib.innermost_frame(e)
    return "%s@%s" % (type(e).__name__, fr)


def check_with_twins(case, fenced=True):
    """The case itself, then its look-alike twins in the same process (state carried across calls)."""
    r = check_case(case, fenced)
    if r:
        return r
    for t2 in semcheck.lookalike_twins(from_json(case["term"])):
        c2 = {k: v for k, v in case.items() if not k.startswith("_")}
        c2["term"] = to_json(t2)
        r = check_case(c2, fenced)
        if r:
            return ("after-lookalike:" + r[0], "after %r: %s" % (printer.render(from_json(case["term"])), r[1]))
    return None


def replay(case):
    return check_with_twins(dict(case), fenced=False)


signature = c01.signature


def shrink(case, bucket):
    case = {k: v for k, v in case.items() if not k.startswith("_")}
    return semcheck.shrink_case(case, bucket, fragment(), lambda c: check_with_twins(dict(c)), budget=200)


def plan(tier, seed, scale):
    K = 16
    total = int((12000 if tier == "quick" else 120000) * scale)
    return [{"name": "rand-%d" % i, "kind": "rand", "n": max(total // K, 10), "shard": i,
             "depth": 4 if tier == "quick" else 5} for i in range(K)]


def run_task(task, seed, acc):
    Fg = fragment()

    def one(case):
        t = from_json(case["term"])
        r = check_with_twins(case)
        stats = case.pop("_stats", {"decided": 0, "undecided": 0})
        nt = count_ops(t) >= 2 and stats.get("decided", 0) >= 1
        acc.case(key=digest([printer.render(t, c01.style_of(case)), case["rows"]]), nontrivial=nt,
                 sample={"filter": printer.render(t, c01.style_of(case)), "rows": case["rows"][:2]})
        acc.cls("rows_decided", stats.get("decided", 0))
        acc.cls("rows_undecided", stats.get("undecided", 0))
        acc.cls("rows_selected", stats.get("selected", 0))
        acc.cls("rows_excluded_by_known_finding", stats.get("excluded_by_known_finding", 0))
        acc.cls("filters_beyond_an_engine_limit", stats.get("engine_limit", 0))
        for c in c01.classes_of(t, case["rows"]):
            acc.cls(c)
        if r:
            acc.fail(r[0], case, r[1])

    strat = st.tuples(gen_typed.pred(task["depth"], Fg), gen_typed.rows_strategy(),
                      st.sampled_from(["minimal", "minimal", "full", "redundant"]), st.integers(0, 2 ** 20))

    def fn(tup):
        t, rows, style, sseed = tup
        one({"term": to_json(t), "rows": semcheck.confuse_rows(t, rows, sseed), "style": style, "style_seed": sseed})

    hyp_run(strat, fn, task["n"], seed * 1000 + task["shard"])
