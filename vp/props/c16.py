"""C16 - visitor and transformer base classes traverse completely and never mutate."""
import copy
import dataclasses

from hypothesis import strategies as st

from .. import gen_syntax, lib, printer, shrink as shr, treeref
from ..decode import decode
from ..runner import digest, hyp_run
from ..terms import from_json, positions, replace_at, to_json, walk, wellformed

PROPERTY_ID = "C16"
RULE = ("ASTs from the full-grammar generator (every node kind, lists in lists, lambda without body, named "
        "parameters, namespaces) x a handler override on each single node kind (34 kinds) x every shipped "
        "visitor. Oracle: a recording NodeVisitor sees exactly the node sequence of the harness's own "
        "depth-first field-order walk (identity, each node once); an overridden visit_<K> receives exactly "
        "the K nodes of that walk; a bare NodeTransformer returns an equal tree; a transformer overriding K "
        "equals the harness's own bottom-up map; a deep snapshot of the input is unchanged after every "
        "shipped visitor (3 SQL dialects, round-trip, AliasRewriter, IdentifierStripper, Django Q, SQLAlchemy "
        "ORM/Core) whether it returns or raises; a == b iff the decoded terms are equal on generated pairs "
        "(re-parsed copy, one-leaf mutation, list-vs-singleton, namespace change). Non-trivial: the tree has "
        "a list-valued field with >= 2 nodes, a body-less lambda or a namespace; distinct by decoded term."
        " One third of the trees are typed filters over the harness schema (scalar and relational) so that the Django and SQLAlchemy visitors run to completion; all override classes share one class name; near-copies include permuted call arguments.")
ASSUMPTIONS = ["handlers under test call generic_visit themselves (otherwise sub-trees are legitimately skipped)"]

KINDS = ["Identifier", "Attribute", "Null", "Integer", "Float", "Boolean", "String", "Geography", "Date",
         "Time", "DateTime", "Duration", "GUID", "List", "Add", "Sub", "Mult", "Div", "Mod", "BinOp", "Eq",
         "NotEq", "Lt", "LtE", "Gt", "GtE", "In", "Compare", "And", "Or", "BoolOp", "Not", "USub",
         "UnaryOp", "NamedParam", "Call", "Any", "All", "Lambda", "CollectionLambda"]


def is_node(x):
    return dataclasses.is_dataclass(x) and not isinstance(x, type)


def ref_map(node, kind, f):
    """Harness's own bottom-up rebuild: children first, then f on nodes of the kind."""
    kwargs = {}
    for fl in dataclasses.fields(node):
        v = getattr(node, fl.name)
        if isinstance(v, list):
            kwargs[fl.name] = [ref_map(i, kind, f) if is_node(i) else i for i in v]
        elif is_node(v):
            kwargs[fl.name] = ref_map(v, kind, f)
        else:
            kwargs[fl.name] = v
    new = type(node)(**kwargs)
    return f(new) if type(new).__name__ == kind else new


def change(node):
    """A visible, kind-preserving change of one node."""
    from odata_query import ast
    n = type(node).__name__
    if n == "Identifier":
        return ast.Identifier(node.name + "_m", node.namespace)
    if n == "Attribute":
        return ast.Attribute(node.owner, node.attr + "_m")
    if n in ("Integer", "Float", "String", "Geography", "Date", "Time", "DateTime", "Duration", "GUID"):
        return type(node)(node.val + "0")
    if n == "Boolean":
        return ast.Boolean("false" if node.val.lower() == "true" else "true")
    if n == "Null":
        return ast.String("was-null")
    if n == "List":
        return ast.List(list(reversed(node.val)))
    if n in ("BinOp", "BoolOp"):
        return type(node)(node.op, node.right, node.left)
    if n == "Compare":
        return ast.Compare(node.comparator, node.right, node.left)
    if n == "UnaryOp":
        return node.operand
    if n == "Call":
        return ast.Call(ast.Identifier(node.func.name + "_m", node.func.namespace), list(reversed(node.args)))
    if n == "NamedParam":
        return ast.NamedParam(ast.Identifier(node.name.name + "_m"), node.param)
    if n == "Lambda":
        return ast.Lambda(ast.Identifier(node.identifier.name + "_m"), node.expression)
    if n == "CollectionLambda":
        return ast.CollectionLambda(node.owner, ast.All() if type(node.operator).__name__ == "Any" else ast.Any(), node.lambda_)
    # operator tokens: swap with a sibling token class
    swap = {"Add": ast.Sub, "Sub": ast.Add, "Mult": ast.Div, "Div": ast.Mult, "Mod": ast.Mult,
            "Eq": ast.NotEq, "NotEq": ast.Eq, "Lt": ast.GtE, "LtE": ast.Gt, "Gt": ast.LtE, "GtE": ast.Lt,
            "In": ast.In, "And": ast.Or, "Or": ast.And, "Not": ast.Not, "USub": ast.USub,
            "Any": ast.All, "All": ast.Any}
    return swap[n]()


def check_traversal(a, text):
    from odata_query.visitor import NodeTransformer, NodeVisitor
    expected = list(treeref.walk_nodes(a))

    class Rec(NodeVisitor):
        def __init__(self):
            self.seen = []

        def visit(self, node):
            self.seen.append(node)
            return super().visit(node)

    r = Rec()
    try:
        r.visit(a)
    except Exception as e:
        return ("visitor-exception:" + lib.exc_bucket(e), "%r: %s" % (text, e))
    if [id(n) for n in r.seen] != [id(n) for n in expected]:
        return ("traversal-order", "%r: visited %s expected %s" % (
            text, [type(n).__name__ for n in r.seen], [type(n).__name__ for n in expected]))
    kinds_present = sorted({type(n).__name__ for n in expected})
    for K in kinds_present:
        calls = []

        def handler(self, node, K=K):
            calls.append(("visit_" + K, id(node)))
            return NodeVisitor.generic_visit(self, node)

        def gen(self, node):
            calls.append(("generic", id(node)))
            return NodeVisitor.generic_visit(self, node)

        V = type("V", (NodeVisitor,), {"visit_" + K: handler, "generic_visit": gen})  # same class name on purpose
        try:
            V().visit(a)
        except Exception as e:
            return ("override-visitor-exception:" + lib.exc_bucket(e), "%r kind=%s: %s" % (text, K, e))
        exp_calls = [("visit_" + K if type(n).__name__ == K else "generic", id(n)) for n in expected]
        if calls != exp_calls:
            return ("dispatch", "%r: override of %s saw %d handler calls, expected %d" % (
                text, K, sum(1 for c in calls if c[0] != "generic"), sum(1 for c in exp_calls if c[0] != "generic")))
    # transformer without overrides
    snap = copy.deepcopy(a)
    try:
        out = NodeTransformer().visit(a)
    except Exception as e:
        return ("transformer-exception:" + lib.exc_bucket(e), "%r: %s" % (text, e))
    if out != a or decode(out) != decode(a):
        return ("bare-transformer-not-identity", "%r -> %r" % (text, out))
    if a != snap:
        return ("input-mutated:NodeTransformer", "%r" % text)
    # the rebuilt tree must not share mutable lists with the input
    for n_in, n_out in zip(treeref.walk_nodes(a), treeref.walk_nodes(out)):
        for fl in dataclasses.fields(n_in):
            v = getattr(n_in, fl.name)
            if isinstance(v, list) and v is getattr(n_out, fl.name):
                return ("transformer-shares-list", "%r: %s.%s is the same list object" % (text, type(n_in).__name__, fl.name))
    for K in kinds_present:
        def handler(self, node):
            return change(NodeTransformer.generic_visit(self, node))

        T = type("V", (NodeTransformer,), {"visit_" + K: handler})  # same class name on purpose
        try:
            got = T().visit(a)
            exp = ref_map(a, K, change)
        except Exception as e:
            return ("override-transformer-exception:" + lib.exc_bucket(e), "%r kind=%s: %s: %s" % (text, K, type(e).__name__, e))
        if got != exp:
            return ("override-transformer-differs", "%r kind=%s: got %r expected %r" % (text, K, got, exp))
        if a != snap:
            return ("input-mutated:transformer-override", "%r kind=%s" % (text, K))
        # a long-lived instance of such a transformer, which every third time first aborts a traversal
        # of this very tree (its handler raises half-way), must answer like a new instance
        slot = _LONG_T.get(K)
        if slot is None:
            def handler2(self, node):
                if self.armed:
                    raise _Boom()
                return change(NodeTransformer.generic_visit(self, node))
            slot = _LONG_T[K] = [type("V", (NodeTransformer,), {"visit_" + K: handler2, "armed": False})(), 0]
        slot[1] += 1
        try:
            if slot[1] % 3 == 0:
                slot[0].armed = True
                try:
                    slot[0].visit(a)
                except _Boom:
                    pass
                slot[0].armed = False
            got2 = slot[0].visit(a)
        except Exception as e:
            _LONG_T.pop(K, None)
            return ("reused-transformer-exception:" + lib.exc_bucket(e), "%r kind=%s: %s: %s" % (text, K, type(e).__name__, e))
        if got2 != exp:
            _LONG_T.pop(K, None)
            return ("reused-transformer-differs", "%r kind=%s: long-lived instance -> %r expected %r" % (text, K, got2, exp))
        if a != snap:
            return ("input-mutated:reused-transformer", "%r kind=%s" % (text, K))
    return None


_LONG_T = {}


class _Boom(Exception):
    pass


_ORM = {}


def shipped_visitors():
    """(name, callable(ast) -> anything) for every shipped visitor."""
    from odata_query import ast as A
    from odata_query.rewrite import AliasRewriter, IdentifierStripper
    from odata_query.roundtrip import AstToODataVisitor
    from odata_query.sql import AstToAthenaSqlVisitor, AstToSqliteSqlVisitor, AstToSqlVisitor
    out = [
        ("sql", lambda a: AstToSqlVisitor().visit(a)),
        ("sql-alias", lambda a: AstToSqlVisitor("t").visit(a)),
        ("sqlite", lambda a: AstToSqliteSqlVisitor().visit(a)),
        ("athena", lambda a: AstToAthenaSqlVisitor().visit(a)),
        ("roundtrip", lambda a: AstToODataVisitor().visit(a)),
        ("alias", lambda a: AliasRewriter({"a": "b/c", "name": "tolower(n)", "x/y": "z", "owner": "o1"}).visit(a)),
        ("strip", lambda a: IdentifierStripper(A.Identifier("x")).visit(a)),
    ]
    try:
        from ..db_orm import orm_visitors
        out.extend(orm_visitors())
    except ImportError:
        pass
    return out


_RETURNED = {}


def check_no_mutation(a, text):
    snap = copy.deepcopy(a)
    before = decode(a)
    rep = repr(a)
    for name, fn in shipped_visitors():
        try:
            fn(a)
            raised = False
        except Exception:
            raised = True
        _RETURNED[name] = _RETURNED.get(name, 0) + (0 if raised else 1)
        if a != snap or decode(a) != before or repr(a) != rep:
            return ("input-mutated:" + name, "%r (visitor %s)" % (text, "raised" if raised else "returned"))
    return None


def check_equality(t, t2):
    """a == b iff decode(a) == decode(b)."""
    ta, tb = printer.render(t), printer.render(t2)
    try:
        # a: wherever the variant's trees come from; a2: parsed here and now
        a, b, a2 = lib.parse(ta), lib.parse(tb), lib.parse_plain(ta)
    except Exception as e:
        return None  # not C16's business
    if a != a2 or not (a == a2) or a2 != a or not (a2 == a):
        return ("equality:reparsed-copy-differs", "%r" % ta)
    try:
        if hash(a) != hash(a2) or a not in {a2} or {a: 1}.get(a2) != 1:
            return ("equality:equal-trees-hash-differently", "%r" % ta)
    except TypeError:
        pass        # trees that hold lists are not hashable
    # every sub-tree of one is found in a set of the other's sub-trees (what AliasRewriter-style lookups rely on)
    try:
        subs = lambda n: [n] + [y for f in getattr(n, "__dataclass_fields__", {}) for x in (getattr(n, f),)   # noqa: E731
                                for y in (subs(x) if hasattr(x, "__dataclass_fields__") else
                                          [z for e_ in x for z in subs(e_)] if isinstance(x, list) else [])]
        pool = set()
        for n in subs(a2):
            try:
                pool.add(n)
            except TypeError:
                pass
        for n in subs(a):
            try:
                hash(n)
            except TypeError:
                continue
            if n not in pool:
                return ("equality:sub-tree-not-found-in-set-of-equal-trees", "%r: %r" % (ta, n))
    except RecursionError:
        pass
    da, db = decode(a), decode(b)
    if (a == b) != (da == db):
        return ("equality:disagrees-with-structure", "%r vs %r: == is %s, structural equality is %s" % (ta, tb, a == b, da == db))
    if (a != b) == (a == b):
        return ("equality:ne-inconsistent", "%r vs %r" % (ta, tb))
    if da == db:
        try:
            if hash(repr(a)) != hash(repr(b)):
                return ("equality:repr-differs", "%r vs %r" % (ta, tb))
        except Exception:
            pass
    return None


def variant(t, seed):
    """A near copy of t: one leaf changed, a list collapsed to a singleton, a namespace changed."""
    import random
    r = random.Random(seed)
    pos = positions(t)
    calls = [ps for ps in pos if ps[1][0] == "call" and len(ps[1][3]) >= 2]
    p, s = r.choice(calls) if calls and r.random() < 0.4 else r.choice(pos)
    if s[0] == "id":
        c = r.randrange(3)
        if c == 0:
            return replace_at(t, p, ("id", s[1], s[2] + ("n2",)))
        if c == 1:
            return replace_at(t, p, ("id", s[1] + "x", s[2]))
        return replace_at(t, p, ("id", s[1], ()))
    if s[0] == "lit":
        return replace_at(t, p, ("lit", "str", s[2])) if s[1] != "str" else replace_at(t, p, ("lit", "str", s[2] + "'"))
    if s[0] == "list":
        return replace_at(t, p, ("list", s[1][:1]))
    if s[0] == "lambda" and s[4] is not None:
        return replace_at(t, p, ("lambda", s[1], "any", None, None))
    if s[0] == "call" and len(s[3]) >= 2:
        return replace_at(t, p, ("call", s[1], s[2], tuple(reversed(s[3]))))   # same arguments, other order
    if s[0] in ("bin", "cmp", "bool") and s[2] != s[3] and s[1] != "in":
        return replace_at(t, p, (s[0], s[1], s[3], s[2]))
    return t


def check_case(case):
    t = from_json(case["term"])
    text = printer.render(t)
    try:
        a = lib.parse(text)
    except Exception as e:
        return ("setup-parse:" + type(e).__name__, "%r: %s" % (text, e))
    r = check_traversal(a, text)
    if r:
        return r
    r = check_no_mutation(a, text)
    if r:
        return r
    t2 = variant(t, case.get("vseed", 0))
    if wellformed(t2):
        return check_equality(t, t2)
    return None


def replay(case):
    return check_case(case)


def shrink(case, bucket):
    t = from_json(case["term"])

    def still(c):
        if not wellformed(c):
            return False
        r = check_case(dict(case, term=to_json(c)))
        return bool(r) and r[0] == bucket

    return dict(case, term=to_json(shr.shrink_term(t, still, budget=150)))


def nontrivial(t):
    for x in walk(t):
        if x[0] == "list" and len(x[1]) >= 2:
            return True
        if x[0] == "call" and len(x[3]) >= 2:
            return True
        if x[0] == "lambda" and x[4] is None:
            return True
        if x[0] == "id" and x[2]:
            return True
    return False


def plan(tier, seed, scale):
    K = 16
    total = int((5000 if tier == "quick" else 100000) * scale)
    return [{"name": "rand-%d" % i, "n": max(total // K, 10), "shard": i,
             "depth": 3 if tier == "quick" else 4} for i in range(K)]


def _typed_trees(depth):
    """Filters over the harness schema, so that the ORM visitors translate them completely instead of
    stopping at the first unknown field (the immutability clause needs visitors that run to the end)."""
    from .. import gen_typed, relational
    F = gen_typed.Fragment("all", funcs=gen_typed.STRING_FUNCS + gen_typed.DATE_FUNCS + ["round", "floor", "ceiling", "second"],
                           neg=True, bare_bool=True, null_left=True, dt_offsets="z")
    S1 = ("id", "s1", ())
    named = [
        ("cmp", "eq", ("call", "substring", (), (("named", "fullstr", S1), ("named", "index", ("lit", "int", "1")),
                                                 ("named", "nchars", ("lit", "int", "2")))), ("lit", "str", "a")),
        ("call", "contains", (), (("named", "field", S1), ("named", "substr", ("lit", "str", "a")))),
        ("cmp", "eq", ("call", "indexof", (), (("named", "first", S1), ("named", "second", ("lit", "str", "a")))), ("lit", "int", "1")),
        ("cmp", "eq", ("call", "length", (), (("named", "arg", S1),)), ("lit", "int", "1")),
        ("lambda", ("id", "parts", ()), "any", "p", ("call", "contains", (), (("named", "field", ("path", ("id", "p", ()), "label")),
                                                                           ("named", "substr", ("lit", "str", "a"))))),
    ]
    return st.one_of(gen_typed.pred(depth, F), relational.rel_pred(2, relational.RelCfg()), st.sampled_from(named))


def run_task(task, seed, acc):
    strat = st.tuples(st.one_of(gen_syntax.exprs(task["depth"], gen_syntax.Cfg(full_unicode=False)),
                                gen_syntax.exprs(task["depth"], gen_syntax.Cfg(full_unicode=False)),
                                _typed_trees(task["depth"])), st.integers(0, 2 ** 20))
    kinds_seen = set()

    def one(pair):
        t, vseed = pair
        case = {"term": to_json(t), "vseed": vseed}
        r = check_case(case)
        nt = nontrivial(t)
        acc.case(key=digest(repr(t)), nontrivial=nt, sample={"filter": printer.render(t)})
        if nt:
            acc.cls("nontrivial")
        if r:
            acc.fail(r[0], case, r[1])

    hyp_run(strat, one, task["n"], seed * 1000 + task["shard"])
    acc.extra["shipped_visitors"] = [n for n, _ in shipped_visitors()]
    for n, k in _RETURNED.items():
        acc.cls("visitor_ran_to_completion_" + n, k)
