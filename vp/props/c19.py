"""C19 - whitespace layout and keyword case do not change the meaning of a filter."""
import random

from hypothesis import strategies as st

from .. import db_orm, db_sqlite, gen_lex, gen_syntax, gen_typed, lib, printer
from ..decode import decode
from ..runner import digest, hyp_run
from ..terms import children, from_json, rebuild, to_json, walk

PROPERTY_ID = "C19"
RULE = ("accepted filters from the full-grammar generator (depth <= 3) and from the typed grammar (with rows); "
        "variants from the reference printer's layout knobs: every required blank -> a random non-empty run of "
        "space/tab/newline, optional blanks at the positions the ABNF allows (inside parentheses incl. empty "
        "argument lists, around commas and the lambda colon, after unary minus), random letter case of every "
        "operator and literal keyword (eq AND Not NULL True in any all, duration/geography prefix, T/Z, exponent "
        "e, GUID hex digits, duration designators). Oracle: decode(parse(variant)) = decode(parse(canonical)) "
        "after replacing literal spellings by their values; per backend the outcome is the same: SQLite text "
        "selects the same rows, standard/Athena text equal up to letter case, Django sql_with_params and "
        "SQLAlchemy compiled SQL + parameters equal, round-trip output re-parses to the same term; or the same "
        "exception class. Date-time literals are written with Z, with an offset and without a zone. Exhaustive: each keyword x 4 case patterns in isolation; every date-time zone form x every case assignment to T and Z x 5 shapes, executed on all engines. Non-trivial: the variant "
        "differs from the canonical text in >= 1 keyword's case and >= 1 blank; distinct by variant text.")
ASSUMPTIONS = ["leading/trailing blanks of the whole filter and blanks around '=' of named parameters are not in the property's list",
               "standard and Athena SQL are not executed: texts are compared case-insensitively only"]

FT = gen_typed.Fragment("common", funcs=gen_typed.STRING_FUNCS + ["year", "month", "day", "hour", "minute"],
                        neg=False, bare_bool=False, null_left=True, dt_offsets="mixed")


def mangle(t, r):
    """Change the letter case inside literal spellings where the ABNF is case-insensitive."""
    if t[0] == "lit":
        kind, text = t[1], t[2]
        if kind == "float" and r.random() < 0.7:
            return ("lit", kind, text.replace("e", "E") if "e" in text else text.replace("E", "e"))
        if kind == "guid":
            return ("lit", kind, "".join(c.upper() if r.random() < 0.5 else c.lower() for c in text))
        if kind == "datetime" and r.random() < 0.7:
            text = text.replace("T", "t") if r.random() < 0.6 else text
            text = text.replace("Z", "z") if r.random() < 0.6 else text
            return ("lit", kind, text)
        if kind == "duration" and r.random() < 0.7:
            return ("lit", kind, text.lower() if r.random() < 0.6 else "".join(
                c.lower() if r.random() < 0.5 else c for c in text))
        return t
    cs = children(t)
    if not cs:
        return t
    return rebuild(t, [mangle(c, r) for c in cs])


def norm(t):
    """Decoded term with literal spellings replaced by their values."""
    if t[0] == "lit":
        kind, text = t[1], t[2]
        if kind in ("str", "geo"):
            return t
        try:
            v = gen_lex.value_of(kind, text)
        except Exception:
            return t
        if kind == "datetime":
            return ("lit", kind, (v.replace(tzinfo=None), str(v.utcoffset())))
        return ("lit", kind, v)
    cs = children(t)
    if not cs:
        return t
    return rebuild(t, [norm(c) for c in cs])


def variant_text(t, seed):
    r = random.Random(seed)
    t2 = mangle(t, r)
    return printer.render(t2, printer.RandomStyle(seed, ws=True, case=True, redundant=False, p_bws=0.4, p_case=0.6))


def parse_norm(text):
    try:
        return ("ok", norm(decode(lib.parse(text))))
    except Exception as e:
        return ("exc", type(e).__name__ + ":" + str(e)[:120])


def text_backends():
    from odata_query.roundtrip import AstToODataVisitor
    from odata_query.sql import AstToAthenaSqlVisitor, AstToSqlVisitor

    def rt(a):
        out = AstToODataVisitor().visit(a)
        return norm(decode(lib.parse(out)))

    return [("sql", lambda a: AstToSqlVisitor().visit(a).lower()),
            ("athena", lambda a: AstToAthenaSqlVisitor("t").visit(a).lower()),
            ("roundtrip", rt)]


def outcome(fn, a):
    from odata_query import exceptions
    try:
        return ("ok", fn(a))
    except exceptions.ODataException as e:
        return ("exc", type(e).__name__)
    except Exception as e:
        return ("foreign", type(e).__name__)


def check_case(case):
    t = from_json(case["term"])
    canon = printer.render(t)
    var = case.get("variant") or variant_text(t, case["seed"])
    pc = parse_norm(canon)
    if pc[0] != "ok":
        return ("setup-canonical-rejected", "%r: %s" % (canon, pc[1]))
    pv = parse_norm(var)
    if pv[0] != "ok":
        return ("variant-rejected:" + pv[1].split(":")[0], "canonical %r accepted, variant %r -> %s" % (canon, var, pv[1]))
    if pv[1] != pc[1]:
        return ("variant-parses-differently", "canonical %r variant %r: %r vs %r" % (canon, var, pc[1], pv[1]))
    ac, av = lib.parse(canon), lib.parse(var)
    for name, fn in text_backends():
        oc, ov = outcome(fn, ac), outcome(fn, av)
        if oc != ov:
            return ("backend-differs:" + name, "canonical %r -> %r ; variant %r -> %r" % (canon, oc, var, ov))
    if "rows" in case:
        r = check_engines(case, canon, var, ac, av)
        if r:
            return r
    return None


def check_engines(case, canon, var, ac, av):
    import sqlite3
    from odata_query import exceptions
    from odata_query.sql import AstToSqliteSqlVisitor
    rows = case["rows"]
    db_sqlite.load(rows)

    def sqlite_ids(a):
        try:
            sql = AstToSqliteSqlVisitor().visit(a)
            return ("ok", db_sqlite.select_ids(sql))
        except exceptions.ODataException as e:
            return ("exc", type(e).__name__)
        except sqlite3.Error as e:
            return ("engine", str(e)[:80])

    a, b = sqlite_ids(ac), sqlite_ids(av)
    if a != b:
        return ("backend-differs:sqlite", "canonical %r -> %r ; variant %r -> %r" % (canon, a, var, b))

    from odata_query.django import apply_odata_query as dj_apply
    M = db_orm.django_models()

    def dj(text):
        try:
            sql, params = dj_apply(M.Item.objects, text).query.sql_with_params()
            return ("ok", sql, tuple(map(repr, params)))
        except exceptions.ODataException as e:
            return ("exc", type(e).__name__)
        except Exception as e:
            return ("foreign", type(e).__name__)

    a, b = dj(canon), dj(var)
    if a != b:
        return ("backend-differs:django", "canonical %r -> %r ; variant %r -> %r" % (canon, a, var, b))

    from odata_query.sqlalchemy import apply_odata_core, apply_odata_query
    S = db_orm.sqlalchemy_models()

    def sa(text, core):
        try:
            if core:
                stmt = apply_odata_core(S.sa.select(S.Item.__table__), text)
            else:
                stmt = apply_odata_query(S.sa.select(S.Item), text)
            c = stmt.compile(S.engine)
            return ("ok", str(c), tuple(sorted((k, repr(v)) for k, v in c.params.items())))
        except exceptions.ODataException as e:
            return ("exc", type(e).__name__)
        except Exception as e:
            return ("foreign", type(e).__name__)

    for core in (False, True):
        a, b = sa(canon, core), sa(var, core)
        if a != b:
            return ("backend-differs:sqlalchemy-" + ("core" if core else "orm"),
                    "canonical %r -> %r ; variant %r -> %r" % (canon, a, var, b))
    return None


def replay(case):
    return check_case(case)


def shrink(case, bucket):
    from .. import shrink as shr
    from ..terms import wellformed
    t = from_json(case["term"])

    def still(c):
        if not wellformed(c):
            return False
        for s in (case.get("seed", 0), 1, 2, 3):
            r = check_case(dict(case, term=to_json(c), seed=s, variant=None))
            if r and r[0] == bucket:
                return True
        return False

    t2 = shr.shrink_term(t, still, budget=120)
    for s in (case.get("seed", 0), 1, 2, 3):
        c2 = dict(case, term=to_json(t2), seed=s, variant=None)
        r = check_case(c2)
        if r and r[0] == bucket:
            return c2
    return case


KEYWORD_FILTERS = [
    ("eq", "a eq 1"), ("ne", "a ne 1"), ("lt", "a lt 1"), ("le", "a le 1"), ("gt", "a gt 1"), ("ge", "a ge 1"),
    ("and", "a eq 1 and b eq 2"), ("or", "a eq 1 or b eq 2"), ("not", "not a"), ("in", "a in (1, 2)"),
    ("add", "a add 1 eq 2"), ("sub", "a sub 1 eq 2"), ("mul", "a mul 1 eq 2"), ("div", "a div 1 eq 2"),
    ("mod", "a mod 2 eq 0"), ("any", "c/any(x: x eq 1)"), ("all", "c/all(x: x eq 1)"), ("true", "a eq true"),
    ("false", "a eq false"), ("null", "a eq null"), ("duration", "a eq duration'P1D'"),
    ("geography", "geo.intersects(a, geography'POINT(1 2)')"),
]


def case_patterns(kw):
    return [kw.upper(), kw.capitalize(), kw[0] + kw[1:].upper(), "".join(c.upper() if i % 2 else c for i, c in enumerate(kw))]


def plan(tier, seed, scale):
    K = 16
    tasks = [{"name": "keywords", "kind": "keywords"}]
    n1 = int((6000 if tier == "quick" else 100000) * scale)
    n2 = int((2000 if tier == "quick" else 35000) * scale)
    for i in range(K):
        tasks.append({"name": "syn-%d" % i, "kind": "syn", "n": max(n1 // K, 5), "shard": i})
        tasks.append({"name": "typed-%d" % i, "kind": "typed", "n": max(n2 // K, 5), "shard": i})
    return tasks


def nontrivial(canon, var):
    if var == canon:
        return False
    squeezed = " ".join(var.split())
    case_changed = squeezed.lower() != squeezed and var.lower() != var and any(
        a != b and a.lower() == b.lower() for a, b in zip(squeezed, squeezed.lower()))
    ws_changed = any(ch in var for ch in "\t\n") or "  " in var or "( " in var or " )" in var or " ," in var
    return case_changed and ws_changed


def run_task(task, seed, acc):
    def one(case):
        t = from_json(case["term"])
        canon = printer.render(t)
        var = case.get("variant") or variant_text(t, case["seed"])
        r = check_case(case)
        nt = nontrivial(canon, var)
        acc.case(key=digest(var), nontrivial=nt, sample={"canonical": canon, "variant": var})
        if nt:
            acc.cls("case_and_blank_changed")
        if "(\t" in var or "( " in var or "(\n" in var:
            acc.cls("bws_inside_parentheses")
        if r:
            acc.fail(r[0], {k: v for k, v in case.items()}, r[1])

    if task["kind"] == "keywords":
        for kw, text in KEYWORD_FILTERS:
            t = decode(lib.parse(text))
            canon = printer.render(t)
            for pat in case_patterns(kw):
                import re
                var = re.sub(r"(?<![A-Za-z])%s(?![A-Za-z])" % kw, pat, canon)
                case = {"term": to_json(t), "seed": 0, "variant": var}
                r = check_case(case)
                acc.case(key=digest(var), nontrivial=True, sample={"canonical": canon, "variant": var})
                if r:
                    acc.fail(r[0], case, r[1])
        # date-time literals: every zone form x every case assignment to T and Z, executed on the engines
        rows = [dict(i1=1, i2=2, r1=0.5, s1="a", s2="b", b1=True, t1=g, d1="2020-01-01") for g in gen_typed.DT_GRID]
        rows.append(dict(i1=None, i2=None, r1=None, s1=None, s2=None, b1=None, t1=None, d1=None))
        for base in (gen_typed.DT_GRID[1], gen_typed.DT_GRID[2]):
            for tail in ("Z", "", "+01:00", "-05:30", "+00:00", ".5Z", ".25", ".125-03:00"):
                for op in ("lt", "ge", "eq"):
                    for pre in ("t1 %s %%s" % op, "%%s %s t1" % op, "t1 in (%s)", "not (t1 ne %s)", "year(%s) eq year(t1)"):
                        canon_text = pre % (base + tail)
                        try:
                            t = decode(lib.parse(canon_text))
                        except Exception:
                            continue
                        canon = printer.render(t)
                        lit = base + tail
                        if lit not in canon:
                            continue
                        for v in {lit.replace("T", "t"), lit.replace("Z", "z"), lit.replace("T", "t").replace("Z", "z")} - {lit}:
                            var = canon.replace(lit, v)
                            case = {"term": to_json(t), "seed": 0, "variant": var, "rows": rows}
                            r = check_case(case)
                            acc.case(key=digest(var), nontrivial=True, sample={"canonical": canon, "variant": var})
                            acc.cls("datetime_case_executed")
                            if r:
                                acc.fail(r[0], case, r[1])
        acc.extra["exhaustive"] = True
        return
    if task["kind"] == "syn":
        strat = st.tuples(gen_syntax.exprs(3, gen_syntax.Cfg()), st.integers(0, 2 ** 30))
        hyp_run(strat, lambda p: one({"term": to_json(p[0]), "seed": p[1]}), task["n"], seed * 1000 + task["shard"])
        return
    strat = st.tuples(gen_typed.pred(3, FT), gen_typed.rows_strategy(4), st.integers(0, 2 ** 30))
    hyp_run(strat, lambda p: one({"term": to_json(p[0]), "rows": p[1], "seed": p[2]}), task["n"],
            seed * 1000 + 500 + task["shard"])
