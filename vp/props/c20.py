"""C20 - lexer and parser instances are reusable and deterministic."""
import hashlib
import json
import os
import subprocess
import sys
import tempfile

import hypothesis
from hypothesis import HealthCheck, Phase, settings, strategies as st
from hypothesis.stateful import RuleBasedStateMachine, invariant, rule, run_state_machine_as_test

from .. import gen_syntax, printer, shrink as shr
from ..runner import REPO, VERIF, digest
from .c10 import mutate

PROPERTY_ID = "C20"
RULE = ("histories from a Hypothesis rule-based state machine owning one shared (lexer, parser) pair and a "
        "second pair: parse a valid filter; parse an input that raises a tokenising / parsing / "
        "unknown-function / argument-count error; pull k tokens from lexer.tokenize(text) and abandon the "
        "generator; interleave token pulls of two strings on two instances; build AliasRewriter with the "
        "shared pair and with fresh instances; invariant after every step: the shared pair's outcome on a "
        "probe (repr of the AST, or exception class + message) equals a fresh pair's. Configurations: child "
        "processes with PYTHONHASHSEED in {0,1,2,3,12345} (thorough: 9 values) x import orders {grammar, sql, "
        "rewrite first} hashing the outcomes of a generated corpus. Non-trivial: >= 3 steps with >= 1 raising "
        "step before the probe; distinct by step sequence."
        " Long histories: one shared pair serves 64-1100 (thorough: 9000) distinct inputs mixed with failing ones (a failing input of more than 128 characters is sent twice), every tree judged by the harness's decoder and the first and last inputs parsed again at the end; the child-process corpus includes inputs along the size ladder (lists with repeated members up to 257 items, runs, nesting). Reference outcomes for the fixed pools and the probe come from pristine child processes (one per string); error inputs include truncated prefixes of valid filters and unterminated literals of every quoted kind; import orders also include the sqlalchemy and django backends; the corpus contains every built-in with 0..4 arguments.")
ASSUMPTIONS = ["interleavings are those a single thread can produce (alternating lazy token pulls); pre-emptive "
               "thread schedules are not owned by the harness"]

ERRORS = ["a eq", "a eq 'x", "a $ b", "(a eq 1", "a eq 1)", "foo(1)", "contains(a)", "substring(a)", "a eq 1 and",
          "not", "a/b/", "a in ()", "x.f(a=1, 2)", "geo.area(a)", "a eq 1 1", "'", "a eq duration'P1'", "",
          "any(x: x eq 1)", "a/any(x x eq 1)", "1 add", "a eq 12:30::15", "a..b eq 1", "now(1)", "a,b",
          "geography'POINT(1 2", "a eq geography'x", "duration'P1D", "a eq duration'PT5", "a eq 'it''s", "x in (1, 'a",
          "geo.distance(a, geography'POINT(", "a eq 2020-01-01T", "a eq 123e4567-e89b-12d3-a456-", "f(a='",
          "(" * 700 + "a", "not (" * 300 + "a", "f(" * 600 + "a"]
VALID = ["a eq 1", "a/b/c eq 'x'", "not (a gt 1 or b lt 2)", "contains(a, 'x') and c in (1, 2)",
         "x/any(v: v/n eq 1)", "ns.f(p=1, q=2)", "a add 1 mul 2 eq 7", "-a eq 2020-01-01",
         "a eq duration'P1DT2H'", "tolower(a) eq 'b'", "a/all(x: x/y/any(z: z eq x/k))", "(1, 2, 3)", "(a,)",
         "geo.distance(a, geography'POINT(1 2)') lt 5", "t gt 2020-01-01T10:00:00Z", "a eq null", "TRUE",
         "FooBar/Baz eq Qux", "My.Func(Arg=1)"]


def outcome(lexer, parser, text):
    try:
        return "ok:" + repr(parser.parse(lexer.tokenize(text)))
    except Exception as e:
        return "exc:%s:%s" % (type(e).__name__, e)


PROBE = "Alpha eq 1 and b/Cx in (1, 2) or ns.Fn(Px=1) eq 'Q'"
_pristine = None

PRISTINE_CHILD = r'''
import sys, json
sys.path.insert(0, %(repo)r)
from odata_query.grammar import ODataLexer, ODataParser
out = {}
for s in json.load(sys.stdin):
    try:
        out[s] = "ok:" + repr(ODataParser().parse(ODataLexer().tokenize(s)))
    except Exception as e:
        out[s] = "exc:%%s:%%s" %% (type(e).__name__, e)
print(json.dumps(out))
'''


def pristine():
    """Outcomes of the fixed pools, each computed in its own pristine child process (class-level state
    leaking between instances would otherwise taint the 'fresh' reference as well)."""
    global _pristine
    if _pristine is None:
        from concurrent.futures import ThreadPoolExecutor
        env = dict(os.environ)
        env.pop("PYTHONPATH", None)

        def one(text):
            p = subprocess.run([sys.executable, "-c", PRISTINE_CHILD % {"repo": REPO}], input=json.dumps([text]),
                               env=env, stdout=subprocess.PIPE, stderr=subprocess.PIPE, text=True)
            if p.returncode != 0:
                raise RuntimeError("pristine child failed: " + p.stderr[-300:])
            return json.loads(p.stdout.strip().splitlines()[-1])

        res = {}
        with ThreadPoolExecutor(16) as ex:
            for d in ex.map(one, VALID + ERRORS + [PROBE]):
                res.update(d)
        _pristine = res
    return _pristine


def fresh_outcome(text):
    from odata_query.grammar import ODataLexer, ODataParser
    base = pristine()
    if text in base:
        return base[text]
    return outcome(ODataLexer(), ODataParser(), text)


class World:
    """The state a history acts on."""

    def __init__(self):
        from odata_query.grammar import ODataLexer, ODataParser
        self.lexer, self.parser = ODataLexer(), ODataParser()
        self.lexer2, self.parser2 = ODataLexer(), ODataParser()

    def step(self, st_):
        """Execute one step; returns None or (bucket, detail)."""
        from odata_query.rewrite import AliasRewriter
        op = st_[0]
        if op == "parse":
            got = outcome(self.lexer, self.parser, st_[1])
            exp = fresh_outcome(st_[1])
            if got != exp:
                return ("shared-differs-from-fresh", "parse %r: shared=%s fresh=%s" % (st_[1], got[:200], exp[:200]))
        elif op == "parse2":
            got = outcome(self.lexer2, self.parser2, st_[1])
            if got != fresh_outcome(st_[1]):
                return ("second-pair-differs-from-fresh", "parse %r" % st_[1])
        elif op == "pull":
            gen = self.lexer.tokenize(st_[1])
            try:
                for _ in range(st_[2]):
                    next(gen)
            except StopIteration:
                pass
            except Exception:
                pass
        elif op == "interleave":
            g1 = self.lexer.tokenize(st_[1])
            g2 = self.lexer2.tokenize(st_[2])
            t1, t2 = [], []
            e1 = e2 = None
            for i in range(st_[3]):
                for g, acc, which in ((g1, t1, 1), (g2, t2, 2)):
                    try:
                        tok = next(g)
                        acc.append((tok.type, repr(tok.value)))
                    except StopIteration:
                        pass
                    except Exception as e:
                        if which == 1:
                            e1 = type(e).__name__
                        else:
                            e2 = type(e).__name__
            for text, toks, err in ((st_[1], t1, e1), (st_[2], t2, e2)):
                from odata_query.grammar import ODataLexer
                ref = []
                rerr = None
                g = ODataLexer().tokenize(text)
                try:
                    for _ in range(st_[3]):
                        tok = next(g)
                        ref.append((tok.type, repr(tok.value)))
                except StopIteration:
                    pass
                except Exception as e:
                    rerr = type(e).__name__
                if toks != ref[:len(toks)] or (err != rerr and len(toks) == len(ref)):
                    return ("interleaved-tokens-differ", "text %r: interleaved=%r alone=%r" % (text, toks, ref))
        elif op == "rewriter":
            amap = {"a": "b/c", "name": "tolower(n)"}
            shared = AliasRewriter(dict(amap), self.lexer, self.parser)
            fresh = AliasRewriter(dict(amap))
            from odata_query.grammar import ODataLexer, ODataParser
            try:
                tree = ODataParser().parse(ODataLexer().tokenize(st_[1]))
            except Exception:
                return None
            a, b = shared.visit(tree), fresh.visit(tree)
            if a != b or shared.replacements != fresh.replacements:
                return ("rewriter-with-supplied-instances-differs", "filter %r" % st_[1])
        return None

    def probe(self, text):
        got = outcome(self.lexer, self.parser, text)
        exp = fresh_outcome(text)
        if got != exp:
            return ("probe-differs-from-fresh", "probe %r: shared=%s fresh=%s" % (text, got[:200], exp[:200]))
        return None


def run_history(steps):
    w = World()
    for s in steps:
        try:
            r = w.step(s)
        except Exception as e:
            r = ("step-raised:" + type(e).__name__, "step %r raised %s: %s" % (list(s), type(e).__name__, str(e)[:300]))
        if r:
            return r
        if s[0] != "probe":
            r = w.probe(PROBE)
            if r:
                return r
    return None


def long_history(n, seed):
    """One shared pair serves n distinct inputs (distinct identifiers, function names, strings; every
    seventh followed by failing inputs - unclosed parentheses, unterminated literals, a failing input of
    more than 128 characters sent twice); every tree must decode to the term that was printed, failing
    inputs must fail the way they do on a new pair, and the first and last inputs are parsed again at
    the end. The oracle for the valid inputs is the harness's own decoder, not another instance."""
    from ..decode import decode
    from ..terms import ident
    from odata_query.grammar import ODataLexer, ODataParser
    w = World()
    items = []
    for i in range(n):
        k = (i + seed) % 8
        day = "2020-%02d-%02d" % (1 + (i // 28) % 12, 1 + i % 28)
        guid = "%08x-0000-4000-8000-%012x" % (i, i)
        same_text = [("date", day), ("str", day), ("guid", guid), ("str", guid), ("time", "12:%02d:%02d" % (i % 60, i % 59)),
                     ("str", "12:%02d:%02d" % ((i + 1) % 60, (i + 1) % 59)), ("datetime", day + "T10:00:00Z"), ("str", day + "T10:00:00Z"),
                     ("str", "7"), ("int", "7"), ("str", "true"), ("str", "null"), ("str", "P1D"), ("duration", "P1D")]
        # names that differ from an earlier one only in letter case, in either order of first appearance
        nm = ["field_%d", "Field_%d", "FIELD_%d", "fIELD_%d"][i % 4] % (i // 4)
        term = [("cmp", "eq", ident(nm), ("lit", "int", str(i))),
                ("cmp", "in", ("path", ident("p%d" % i), "q%d" % (i % 7)),
                 ("list", (("lit", "str", "v%d" % i), ("lit", "int", str(i % 3)), ("lit", "int", str(i % 3))))),
                ("call", ["f%d", "F%d"][i % 2] % (i // 2), (["ns%d", "Ns%d"][(i // 2) % 2] % (i % 5),), (ident(["a%d", "A%d"][i % 2] % (i // 2)),)),
                ("lambda", ident("coll%d" % i), "any", "x", ("cmp", "gt", ("path", ident("x"), "n%d" % i), ("lit", "int", "1"))),
                ("bool", "and", ("cmp", "eq", ident("g%d" % i), ("lit", "str", "s%d" % i)), ("un", "not", ident("h%d" % i))),
                ("cmp", "eq", ("call", "tolower", (), (ident("t%d" % i),)), ("lit", "str", "x" * (i % 40))),
                # one text, different literal kinds, in either order of first appearance
                ("cmp", "in", ident("k%d" % (i % 3)), ("list", tuple(("lit",) + same_text[(i // 8 + j) % len(same_text)] for j in range(3)))),
                ("cmp", "eq", ident("m"), ("lit",) + same_text[(i // 8) % len(same_text)])][k]
        items.append((printer.render(term), term))

    def valid(i, when):
        text, term = items[i]
        try:
            got = decode(w.parser.parse(w.lexer.tokenize(text)))
        except Exception as e:
            return ("long-history:valid-input-raises", "input #%d %r %s (of %d): %s: %s" % (i, text, when, n, type(e).__name__, e))
        if got != term:
            return ("long-history:wrong-tree", "input #%d %r %s (of %d) decodes to %r" % (i, text, when, n, got))
        return None

    for i in range(n):
        r = valid(i, "in sequence")
        if r:
            return r
        if i % 7 == 3:
            base = " and ".join("c%d_%d eq %d" % (i, j, j) for j in range(14)) + " and name eq 'two  blanks'"
            # the same long failing input twice in a row: failing right after a complete filter (no blank in
            # between), after a blank, in the middle, at an unterminated literal, at a stray parenthesis
            long_bad = [base + "#", base + " #", base[:60] + "#" + base[60:], base + " and x eq 'unterminated",
                        base + ")", base + "\x00"][(i // 7) % 6]
            for bad in ("(" * (i % 5 + 1) + "a%d eq" % i, "a%d eq 'unterminated %d" % (i, i), long_bad, long_bad,
                        "f%d(" % i, "a%d eq 1)" % i):
                got = outcome(w.lexer, w.parser, bad)
                exp = outcome(ODataLexer(), ODataParser(), bad)
                if not got.startswith("exc:") or got != exp:
                    return ("long-history:failing-input-differs", "after %d inputs, %r: shared=%s new pair=%s" % (
                        i, bad[:80], got[:160], exp[:160]))
    for i in list(range(min(30, n))) + list(range(max(n - 30, 0), n)):
        r = valid(i, "again at the end")
        if r:
            return r
    return w.probe(PROBE)


def replay(case):
    if "long" in case:
        return long_history(case["long"], case["seed"])
    if "hashseeds" in case:
        return run_children(case["hashseeds"], case["orders"], case["corpus"])
    return run_history([tuple(s) for s in case["steps"]])


def shrink(case, bucket):
    if "steps" not in case:
        return case

    def still(steps):
        r = run_history([tuple(s) for s in steps])
        return bool(r) and r[0] == bucket

    return {"steps": shr.shrink_list(case["steps"], still, budget=60)}


def texts():
    valid = st.one_of(st.sampled_from(VALID),
                      gen_syntax.exprs(2, gen_syntax.Cfg()).map(printer.render))
    bad = st.one_of(st.sampled_from(ERRORS),
                    st.tuples(st.sampled_from(VALID), st.integers(0, 2 ** 20)).map(lambda p: mutate(p[0], p[1])),
                    st.tuples(valid, st.integers(1, 40)).map(lambda p: p[0][:max(1, len(p[0]) - p[1] % max(len(p[0]), 1))]))
    return valid, bad


def make_machine(acc):
    valid, bad = texts()

    class Machine(RuleBasedStateMachine):
        def __init__(self):
            super().__init__()
            self.w = World()
            self.steps = []
            self.raised = 0

        def do(self, s):
            self.steps.append(s)
            try:
                r = self.w.step(s)
            except Exception as e:      # a step of the history itself must never raise
                r = ("step-raised:" + type(e).__name__, "step %r raised %s: %s" % (list(s), type(e).__name__, str(e)[:300]))
            if r:
                acc.fail(r[0], {"steps": [list(x) for x in self.steps]}, r[1])
                raise AssertionError(r[1])

        @rule(t=valid)
        def parse_valid(self, t):
            self.do(("parse", t))

        @rule(t=bad)
        def parse_error(self, t):
            if fresh_outcome(t).startswith("exc:"):
                self.raised += 1
            self.do(("parse", t))

        @rule(t=valid)
        def parse_on_second_pair(self, t):
            self.do(("parse2", t))

        @rule(t=st.one_of(valid, bad), k=st.integers(0, 6))
        def pull_and_abandon(self, t, k):
            self.do(("pull", t, k))

        @rule(a=st.one_of(valid, bad), b=valid, k=st.integers(1, 8))
        def interleave(self, a, b, k):
            self.do(("interleave", a, b, k))

        @rule(t=valid)
        def rewriter(self, t):
            self.do(("rewriter", t))

        @invariant()
        def probe_equals_fresh(self):
            r = self.w.probe(PROBE)
            if r:
                acc.fail(r[0], {"steps": [list(x) for x in self.steps]}, r[1])
                raise AssertionError(r[1])

        def teardown(self):
            nt = len(self.steps) >= 3 and self.raised >= 1
            acc.case(key=digest(self.steps), nontrivial=nt,
                     sample={"steps": [list(s) for s in self.steps[:6]]} if nt else None)
            acc.cls("steps", len(self.steps))
            if self.raised:
                acc.cls("histories_with_raising_step")

    return Machine


# ---- child processes: hash seed x import order -------------------------------------------------

CHILD = r'''
import sys, json, hashlib
sys.path.insert(0, %(repo)r)
order = %(order)r
if order == "grammar":
    import odata_query.grammar
elif order == "sql":
    import odata_query.sql, odata_query.roundtrip
elif order == "sqlalchemy":
    import odata_query.sqlalchemy
elif order == "django":
    import odata_query.django
elif order == "everything":
    import odata_query.sqlalchemy, odata_query.django, odata_query.sql, odata_query.roundtrip, odata_query.rewrite
else:
    import odata_query.rewrite, odata_query.utils
from odata_query.grammar import ODataLexer, ODataParser
corpus = json.load(open(%(corpus)r))
out = []
for s in corpus:
    try:
        r = "ok:" + repr(ODataParser().parse(ODataLexer().tokenize(s)))
    except Exception as e:
        r = "exc:%%s:%%s" %% (type(e).__name__, e)
    out.append(hashlib.blake2b(r.encode("utf-8", "surrogatepass"), digest_size=6).hexdigest())
print(json.dumps(out))
'''


def run_children(hashseeds, orders, corpus):
    work = tempfile.mkdtemp(prefix="vp-c20-")
    try:
        cp = os.path.join(work, "corpus.json")
        with open(cp, "w") as f:
            json.dump(corpus, f)
        results = {}
        for hs in hashseeds:
            for order in orders:
                env = dict(os.environ)
                env["PYTHONHASHSEED"] = str(hs)
                env.pop("PYTHONPATH", None)
                code = CHILD % {"repo": REPO, "order": order, "corpus": cp}
                p = subprocess.run([sys.executable, "-c", code], env=env, stdout=subprocess.PIPE,
                                   stderr=subprocess.PIPE, text=True)
                if p.returncode != 0:
                    return ("child-process-failed", "hashseed=%s order=%s: %s" % (hs, order, p.stderr[-500:]))
                results[(hs, order)] = json.loads(p.stdout.strip().splitlines()[-1])
        base_key = (hashseeds[0], orders[0])
        base = results[base_key]
        for k, v in results.items():
            if v != base:
                i = next(j for j, (x, y) in enumerate(zip(base, v)) if x != y)
                return ("outcome-depends-on-configuration",
                        "input %r: %r and %r give different outcomes" % (corpus[i], base_key, k))
        return None
    finally:
        import shutil
        shutil.rmtree(work, ignore_errors=True)


def corpus_for(seed, n_random):
    import random
    out = []
    for t in gen_syntax.enumerate_ops(2):
        out.append(printer.render(t))
    out.extend(VALID)
    out.extend(ERRORS)
    # every built-in with every argument count 0..4: arity verdicts must not depend on what was imported
    from .. import spec_tables
    for (ns, name) in sorted(spec_tables.FUNCTIONS):
        full = ".".join(ns + (name,))
        for n in range(0, 5):
            out.append("%s(%s)" % (full, ", ".join("a%d" % i for i in range(n))))
    # inputs that are large along the size ladder (long lists with repeated members, long operator
    # runs, deep nesting, long names, many digits)
    sm = [("id", "a", ()), ("lit", "int", "1"), ("lit", "str", "x")]
    sp = [("call", "tolower", (), (("id", "s", ()),)), ("list", (("lit", "int", "1"), ("lit", "int", "1"))),
          ("cmp", "eq", ("id", "b", ()), ("lit", "int", "2"))]
    cfg = gen_syntax.Cfg()
    for dim in sorted(gen_syntax.LADDER):
        for n in gen_syntax.LADDER[dim]:
            if n > 300:
                continue
            for k in range(2):
                rr = random.Random("%s-%d-%d-%d" % (dim, n, k, seed))
                out.append(printer.render(gen_syntax._build_scaled(dim, n, rr, sp, sm, cfg)))
    r = random.Random(seed)
    pool = list(out)
    for i in range(n_random):
        out.append(mutate(r.choice(pool), r.randrange(2 ** 30)))
    return out


def plan(tier, seed, scale):
    K = 16
    n = int((1600 if tier == "quick" else 12000) * scale)
    base = pristine()
    tasks = [{"name": "machine-%d" % i, "kind": "machine", "n": max(n // K, 2), "shard": i,
              "steps": 30 if tier == "quick" else 80, "pristine": base} for i in range(K)]
    for n in ([64, 130, 300, 600, 1100] if tier == "quick" else [64, 130, 300, 600, 1100, 2100, 4200, 9000]):
        tasks.append({"name": "long-%d" % n, "kind": "long", "n": n, "pristine": base})
    hs = [0, 1, 2, 3, 12345] if tier == "quick" else [0, 1, 2, 3, 7, 42, 12345, 99999, 4294967295]
    for i, h in enumerate(hs):
        tasks.append({"name": "children-%d" % h, "kind": "children", "hashseeds": [0, h] if h else [0, 0],
                      "orders": ["grammar", "sql", "rewrite", "sqlalchemy", "django", "everything"], "n_random": 2000 if tier == "quick" else 10000})
    return tasks


def run_task(task, seed, acc):
    if task["kind"] == "children":
        corpus = corpus_for(seed, task["n_random"])
        r = run_children(task["hashseeds"], task["orders"], corpus)
        n = len(task["hashseeds"]) * len(task["orders"])
        acc.case(key=digest([task["hashseeds"], task["orders"], len(corpus)]), nontrivial=True, n=n,
                 sample={"hashseeds": task["hashseeds"], "orders": task["orders"], "corpus_size": len(corpus)})
        acc.cls("child_processes", n)
        acc.cls("corpus_inputs_hashed", len(corpus) * n)
        if r:
            acc.fail(r[0], {"hashseeds": task["hashseeds"], "orders": task["orders"], "corpus": corpus[:50]}, r[1])
        return
    global _pristine
    _pristine = task.get("pristine") or _pristine
    if task["kind"] == "long":
        case = {"long": task["n"], "seed": seed}
        r = long_history(task["n"], seed)
        acc.case(key=digest(case), nontrivial=True, sample=case)
        acc.cls("long_history_inputs", task["n"])
        if r:
            acc.fail(r[0], case, r[1])
        return
    Machine = make_machine(acc)
    try:
        run_state_machine_as_test(
            hypothesis.seed(seed * 1000 + task["shard"])(Machine),
            settings=settings(max_examples=task["n"], stateful_step_count=task["steps"], deadline=None,
                              database=None, phases=[Phase.generate], report_multiple_bugs=False,
                              suppress_health_check=list(HealthCheck), derandomize=False))
    except AssertionError:
        pass  # already recorded through acc.fail
    except Exception:
        # Hypothesis re-runs a failing example; when the failure stems from state leaking in the code
        # under test the re-run can differ (Flaky*). The failure itself is already recorded.
        if not acc.failures:
            raise
