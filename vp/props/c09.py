"""C09 - every SQL dialect emits well-formed SQL whose structure mirrors the filter."""
import re

from hypothesis import strategies as st

from .. import gen_typed, lib, printer, semcheck, sqllex, sqlparse
from ..runner import digest, hyp_run, known_ids
from ..terms import children, count_ops, from_json, rebuild, to_json, walk

PROPERTY_ID = "C09"
RULE = ("typed filters over the union of what the three dialects translate (all operators, string/date/math "
        "functions, durations, now, list-typed functions on Athena), arbitrarily composed to depth <= 4 (5), with "
        "unique leaves (every field occurrence its own name, every literal a unique value) x dialect {standard, "
        "SQLite, Athena} x alias {absent, \"t\"}. Oracle: (a) the text tokenises under the harness's SQL lexer and "
        "parses under the harness's Pratt parser with the dialect's documented precedence (SQL:1999/Trino: "
        "predicates are non-associative, || is not mixed with arithmetic; no bare-word placeholder such as None); "
        "(b) for every operator node of the filter the SQL tree has a node with the corresponding operator whose "
        "left/right sub-trees contain exactly the leaves of the filter node's operands (AND/OR chains compared "
        "flattened); (c) every field is a quoted identifier with its name and every literal occurs with its "
        "value, exactly once outside argument-repeating templates; the alias prefixes every field and nothing "
        "else. indexof is emitted as `<position call> - 1`: that difference must exist as one SQL node and be, as a whole, the operand of the counterpart of the parent operator (unary minus, arithmetic). Exhaustive: every function x every argument being a composite of every operator class. "
        "Non-trivial: >= 3 operator/function nodes with an operator nested under a different one; distinct by "
        "(term skeleton, dialect, alias)."
        " String leaves carry tails that need quoting/escaping (' % _' \\ %'q); some lists repeat one of their values and every written element must still be emitted (occurrence counts are compared).")
ASSUMPTIONS = ["standard/Athena well-formedness is judged by the harness parser (vp/sqlparse.py), not by a running engine",
               "function templates may reorder or repeat their arguments; only leaf identity is compared inside them"]

ALL_FUNCS = gen_typed.STRING_FUNCS + gen_typed.DATE_FUNCS + ["round", "floor", "ceiling"]


def fragment():
    return gen_typed.Fragment("sqlunion", funcs=ALL_FUNCS, neg=True, bare_bool=True, null_left=True, dt_offsets="z")


# ---- unique leaves --------------------------------------------------------------------------------

STR_TAILS = ["", "", "'", "", "%", "_'", "", "\\", "%'q", ""]


def uniquify_literals(t):
    return uniquify(t, fields=False)


def uniquify(t, fields=True):
    """Every field occurrence gets its own name, every value literal a unique value."""
    n = [0]

    def go(x):
        if x[0] == "id" and not fields:
            return x
        if x[0] == "id":
            i = n[0]
            n[0] += 1
            return ("id", "c%d" % i, ())
        if x[0] == "lit":
            i = n[0]
            n[0] += 1
            k = x[1]
            if k == "int":
                return ("lit", "int", str(1000 + i))
            if k == "float":
                # the same value in spellings of ordinary and of ladder length (trailing zeros, long mantissa
                # with an exponent in either letter case): every spelling denotes (2000 + i) + 0.5 exactly
                sp = i % 8
                if sp in (6, 7):
                    d = str(2000 + i)
                    return ("lit", "float", "%s.%s5%s%s1" % (d[:-1], d[-1], "0" * 36, "E" if sp == 6 else "e"))
                if sp == 3:
                    return ("lit", "float", "%d.5%s" % (2000 + i, "0" * 36))
                if sp == 4:
                    return ("lit", "float", "%d5%sE-39" % (2000 + i, "0" * 38))
                if sp == 5:
                    return ("lit", "float", "0.%s%d5e%d" % ("0" * 30, 2000 + i, 34))
                return ("lit", "float", "%d.5" % (2000 + i))
            if k == "str":
                # unique marker + (sometimes) characters that need quoting / escaping in SQL
                return ("lit", "str", "u%dx" % i + STR_TAILS[i % len(STR_TAILS)])
            if k == "date":
                return ("lit", "date", "%d-%02d-%02d" % (2030 + i // 300, 1 + (i // 25) % 12, 1 + i % 25))
            if k == "datetime":
                tail = ["T10:00:00Z", "T10:00:00.5Z", "T10:00:00.123456-05:30", "T23:59:59+01:00", "T10:00Z"][i % 5]
                return ("lit", "datetime", "%d-%02d-%02d%s" % (2050 + i // 300, 1 + (i // 25) % 12, 1 + i % 25, tail))
            if k == "duration":
                return ("lit", "duration", "P%dD" % (7000 + i))
            n[0] -= 1
            return x
        cs = children(x)
        out = rebuild(x, [go(c) for c in cs]) if cs else x
        if fields and out[0] == "list" and len(out[1]) >= 2 and n[0] % 3 == 0 and out[1][0][0] == "lit" \
                and out[1][-1][0] == "lit":
            # a list that repeats one of its values: every written element must still be emitted
            out = ("list", out[1][:-1] + (out[1][0],))
        return out

    return go(t)


def norm_dt(text):
    """Date-time text with the separator and letter case normalised (T/t/blank are the same separator)."""
    return text.upper().replace("T", " ")


def marker(x):
    """Leaf marker of a filter leaf, or None for keywords (true/false/null)."""
    if x[0] == "id":
        return "c:" + x[1]
    if x[0] == "lit":
        k, v = x[1], x[2]
        if k in ("int", "float"):
            return "n:%r" % float(v)
        if k == "str":
            m = re.match(r"u\d+x", v)
            return "s:" + (m.group(0) if m else v)
        if k == "date":
            return "s:" + v
        if k == "datetime":
            return "t:" + norm_dt(v)
        if k == "duration":
            return "s:" + re.sub(r"\D", "", v)
    return None


def f_leaves(t):
    return frozenset(m for m in (marker(x) for x in walk(t)) if m)


def s_leaves(e, known, dialect, marks=None):
    out = set()
    if marks is None:
        marks = ([m for m in known if m.startswith("s:")], [m for m in known if m.startswith("t:")])
    s_marks, t_marks = marks
    for node in sqlparse.subnodes(e):
        k = node[0]
        if k == "col":
            out.add("c:" + node[2])
        elif k == "num":
            m = "n:%r" % float(node[1])
            if m in known:
                out.add(m)
        elif k in ("str", "typed", "interval"):
            s = node[1] if k != "typed" else node[2]
            s = s.replace("\\", "")
            for m in s_marks:
                if m[2:] in s:
                    out.add(m)
            if t_marks:
                ns = norm_dt(s)
                for m in t_marks:
                    if m[2:] in ns:
                        out.add(m)
    return frozenset(out)


OPMAP = {"add": {"+"}, "sub": {"-"}, "mul": {"*"}, "div": {"/"}, "mod": {"%"},
         "eq": {"="}, "ne": {"!=", "<>"}, "lt": {"<"}, "le": {"<="}, "gt": {">"}, "ge": {">="},
         "in": {"IN"}, "and": {"AND"}, "or": {"OR"}}
NULL = ("lit", "null", "")


def flatten_f(t, op):
    if t[0] == "bool" and t[1] == op:
        return flatten_f(t[2], op) + flatten_f(t[3], op)
    return [t]


def flatten_s(e, op):
    e2 = sqlparse.strip(e)
    if e2[0] == "bin" and e2[1] == op:
        return flatten_s(e2[2], op) + flatten_s(e2[3], op)
    return [e]


def structure_check(t, tree, dialect):
    """None or (kind, detail): every operator node of the filter has its SQL counterpart."""
    known = f_leaves(t)
    nodes = sqlparse.subnodes(tree)

    marks = ([m for m in known if m.startswith("s:")], [m for m in known if m.startswith("t:")])
    memo = {}

    def L(e):
        r = memo.get(id(e))
        if r is None:
            r = memo[id(e)] = s_leaves(e, known, dialect, marks)
        return r

    def parent_ops():
        # (node, parent) pairs for and/or chain roots
        out = []

        def go(x, parent):
            out.append((x, parent))
            for c in children(x):
                go(c, x)
        go(t, None)
        return out

    for x, parent in parent_ops():
        k = x[0]
        if k == "bin" or (k == "cmp" and x[1] != "in" and NULL not in (x[2], x[3])):
            want = (f_leaves(x[2]), f_leaves(x[3]))
            ops = OPMAP[x[1]]
            if not any(n[0] == "bin" and n[1] in ops and (L(n[2]), L(n[3])) == want for n in nodes):
                return ("operator-not-mirrored:" + x[1], "no SQL %s node with operands %s | %s" % (
                    sorted(ops), sorted(want[0]), sorted(want[1])))
        elif k == "cmp" and x[1] == "in":
            want = (f_leaves(x[2]), f_leaves(x[3]))
            if not any(n[0] == "bin" and n[1] == "IN" and (L(n[2]), L(n[3])) == want for n in nodes):
                return ("operator-not-mirrored:in", "no SQL IN node with operands %s | %s" % (sorted(want[0]), sorted(want[1])))
        elif k == "cmp":
            other = x[3] if x[2] == NULL else x[2]
            want = f_leaves(other)
            ops = {"IS"} if x[1] == "eq" else {"ISNOT"}
            ok = False
            for n in nodes:
                if n[0] == "bin" and n[1] in ops:
                    sides = (sqlparse.strip(n[2]), sqlparse.strip(n[3]))
                    if sides[1] == ("kw", "NULL") and L(n[2]) == want:
                        ok = True
            if not ok:
                return ("null-test-not-mirrored:" + x[1], "no SQL %s NULL node over %s" % (sorted(ops), sorted(want)))
        elif k == "bool":
            if parent is not None and parent[0] == "bool" and parent[1] == x[1]:
                continue
            op = x[1].upper()
            want = [f_leaves(o) for o in flatten_f(x, x[1])]
            ok = False
            for n in nodes:
                if n[0] == "bin" and n[1] == op:
                    if [L(o) for o in flatten_s(n, op)] == want:
                        ok = True
                        break
            if not ok:
                return ("operator-not-mirrored:" + x[1], "no SQL %s chain with operands %s" % (op, [sorted(w) for w in want]))
        elif k == "un":
            want = f_leaves(x[2])
            op = "NOT" if x[1] == "not" else "-"
            if not any(n[0] == "un" and n[1] == op and L(n[2]) == want for n in nodes):
                return ("operator-not-mirrored:" + x[1], "no SQL unary %s node over %s" % (op, sorted(want)))
        if k == "call" and x[1] == "indexof" and not x[2] and parent is not None and parent[0] in ("un", "bin"):
            # indexof is emitted as `<position function> - 1`: that difference is one operand of the parent
            # operator (a unary minus or an arithmetic operator binds tighter than, or as tight as, its minus)
            want = f_leaves(x)
            units = [n for n in nodes if n[0] == "bin" and n[1] == "-" and sqlparse.strip(n[3]) == ("num", "1")
                     and sqlparse.strip(n[2])[0] == "call" and L(n[2]) == want]
            if not units:
                return ("indexof-offset-not-mirrored", "no SQL node `<call over %s> - 1`" % sorted(want))
            if parent[0] == "un" and parent[1] == "neg":
                ok = any(n[0] == "un" and n[1] == "-" and sqlparse.strip(n[2]) in units for n in nodes)
            elif parent[0] == "bin":
                sides = [i for i in (2, 3) if parent[i] == x]
                ok = any(n[0] == "bin" and n[1] in OPMAP[parent[1]] and any(sqlparse.strip(n[i]) in units for i in sides)
                         for n in nodes)
            else:
                ok = True
            if not ok:
                return ("indexof-offset-not-mirrored", "the `- 1` of indexof over %s is not inside the operand of its parent %s" % (
                    sorted(want), parent[1]))
    return None


REPEATING = {"floor", "ceiling", "hassubset"}
_REUSED = {}


def leaves_check(t, sql, tree, dialect, alias):
    toks = sqllex.lex(sql)
    known = f_leaves(t)
    # occurrences
    repeat_ok = set()
    for x in walk(t):
        if x[0] == "call" and x[1] in REPEATING:
            repeat_ok |= f_leaves(x)
    expected = {}
    for x in walk(t):
        m = marker(x)
        if m:
            expected[m] = expected.get(m, 0) + 1
    counts = {m: 0 for m in known}
    for k, v in toks:
        if k == "qid":
            if "c:" + v in counts:
                counts["c:" + v] += 1
        elif k == "num":
            m = "n:%r" % float(v)
            if m in counts:
                counts[m] += 1
        elif k == "str":
            s = v.replace("\\", "")
            for m in known:
                if m.startswith("s:") and m[2:] in s:
                    counts[m] += 1
                elif m.startswith("t:") and m[2:] in norm_dt(s):
                    counts[m] += 1
    for m, c in counts.items():
        if c == 0:
            return ("leaf-missing", "%s does not occur in %s" % (m, sql))
        if c != expected.get(m, 1) and m not in repeat_ok:
            return ("leaf-count-differs", "%s occurs %d times in the filter but %d times in %s" % (m, expected.get(m, 1), c, sql))
        if c < expected.get(m, 1):
            return ("leaf-count-differs", "%s occurs %d times in the filter but %d times in %s" % (m, expected.get(m, 1), c, sql))
    # quoted identifiers: fields (+ alias) only
    fields = {m[2:] for m in known if m.startswith("c:")}
    for i, (k, v) in enumerate(toks):
        if k != "qid":
            continue
        is_alias_pos = (i + 2 < len(toks) + 1 and i + 1 < len(toks) and toks[i + 1] == ("punct", "."))
        if alias:
            if is_alias_pos:
                if v != alias:
                    return ("alias-wrong", "%r used as qualifier in %s" % (v, sql))
            else:
                if i < 2 or toks[i - 1] != ("punct", ".") or toks[i - 2] != ("qid", alias):
                    return ("alias-missing-on-field", "field %r not qualified in %s" % (v, sql))
                if v not in fields:
                    return ("unexpected-identifier", "%r in %s" % (v, sql))
        else:
            if is_alias_pos or (i >= 1 and toks[i - 1] == ("punct", ".")):
                return ("unexpected-qualifier", "%s" % sql)
            if v not in fields:
                return ("unexpected-identifier", "%r in %s" % (v, sql))
    return None


def dialects():
    from odata_query.sql import AstToAthenaSqlVisitor, AstToSqliteSqlVisitor, AstToSqlVisitor
    return [("standard", AstToSqlVisitor), ("sqlite", AstToSqliteSqlVisitor), ("athena", AstToAthenaSqlVisitor)]


def known_class(case, bucket):
    """Attribute a failure to a listed known finding (S8: base dialect floor/ceiling CASE text)."""
    t = from_json(case["term"])
    if not bucket.startswith("standard:"):
        return None
    if case.get("dialect") == "standard" and any(x[0] == "call" and x[1] in ("floor", "ceiling") for x in walk(t)):
        if bucket.startswith("standard:not-well-formed"):
            return "S8"
    return None


def fenced(t, dname, fences):
    if "S8" in fences and dname == "standard":
        return any(x[0] == "call" and x[1] in ("floor", "ceiling") for x in walk(t))
    return False


def check_case(case, use_fences=True):
    from odata_query import exceptions
    t = uniquify(from_json(case["term"]))
    text = printer.render(t)
    fences = known_ids(PROPERTY_ID) if use_fences else set()
    try:
        a = lib.parse(text)
    except Exception as e:
        return ("setup-parse:" + type(e).__name__, "%r: %s" % (text, e))
    for dname, cls in dialects():
        if case.get("dialect") and case["dialect"] != dname:
            continue
        if fenced(t, dname, fences):
            case["_excluded"] = case.get("_excluded", 0) + 1
            continue
        for alias in (None, "t"):
            if "alias" in case and case["alias"] != alias:
                continue
            try:
                sql = cls(alias).visit(a) if alias else cls().visit(a)
                key = (dname, alias)
                if key not in _REUSED:
                    _REUSED[key] = cls(alias) if alias else cls()
                sql_again = _REUSED[key].visit(a)
                if sql_again != sql:
                    _REUSED.pop(key, None)
                    return ("%s:reused-visitor-differs" % dname, "%r: fresh -> %s ; reused instance -> %s" % (text, sql, sql_again))
                # one long-lived visitor whose table_alias attribute is assigned between uses
                flip = _REUSED.setdefault((dname, "flip"), cls())
                flip.table_alias = alias
                sql_flip = flip.visit(a)
                if sql_flip != sql:
                    _REUSED.pop((dname, "flip"), None)
                    return ("%s:alias-assigned-after-construction-differs" % dname,
                            "%r alias=%r: fresh -> %s ; visitor with table_alias assigned later -> %s" % (text, alias, sql, sql_flip))
            except exceptions.ODataException as e:
                return ("%s:refused:%s" % (dname, type(e).__name__), "%r -> %s: %s" % (text, type(e).__name__, e))
            except Exception as e:
                return ("%s:foreign:%s" % (dname, lib.exc_bucket(e)), "%r -> %s: %s" % (text, type(e).__name__, e))
            if not isinstance(sql, str):
                return ("%s:non-string-output" % dname, "%r -> %r" % (text, sql))
            try:
                tree = sqlparse.parse(sql, dname)
            except sqlparse.SqlSyntaxError as e:
                return ("%s:not-well-formed:%s" % (dname, re.sub(r"[^a-zA-Z ]", "", str(e))[:40].strip().replace(" ", "-")),
                        "%r -> %s : %s" % (text, sql, e))
            r = structure_check(t, tree, dname)
            if r:
                return ("%s:%s" % (dname, r[0]), "%r -> %s : %s" % (text, sql, r[1]))
            r = leaves_check(t, sql, tree, dname, alias)
            if r:
                return ("%s:%s" % (dname, r[0]), "%r (alias=%r): %s" % (text, alias, r[1]))
    return None


def replay(case):
    return check_case(dict(case), use_fences=False)


def signature(case):
    return semcheck.skeleton(from_json(case["term"]))


def shrink(case, bucket):
    from .. import shrink as shr
    case = {k: v for k, v in case.items() if not k.startswith("_")}
    dname = bucket.split(":")[0]
    if dname in ("standard", "sqlite", "athena"):
        case["dialect"] = dname
    t = from_json(case["term"])
    F = fragment()

    def still(c):
        if not semcheck.in_fragment(c, F):
            return False
        r = check_case(dict(case, term=to_json(c)))
        return bool(r) and r[0] == bucket

    t2 = shr.shrink_term(t, still, budget=200, extra_leaves=semcheck.SIMPLE_LEAVES)
    return dict(case, term=to_json(t2))


def nontrivial(t):
    if count_ops(t) < 3:
        return False
    for x in walk(t):
        if x[0] in ("bin", "cmp", "bool", "un"):
            for c in children(x):
                if c[0] in ("bin", "cmp", "bool", "un") and (c[0], c[1]) != (x[0], x[1]):
                    return True
    return False


# ---- exhaustive: every function x every argument a composite of every operator class -------------

def exhaustive_terms():
    I = lambda n: ("id", "i%d" % n, ())   # noqa: E731
    S = lambda n: ("id", "s%d" % n, ())   # noqa: E731
    int_comps = [("bin", "add", I(1), I(2)), ("bin", "mul", I(1), I(2)), ("un", "neg", I(1)),
                 ("call", "length", (), (S(1),)), ("call", "indexof", (), (S(1), S(2))),
                 ("bin", "sub", I(1), ("bin", "sub", I(2), I(1)))]
    str_comps = [("call", "concat", (), (S(1), S(2))), ("call", "tolower", (), (S(1),)),
                 ("call", "substring", (), (S(1), ("bin", "add", I(1), I(2)))), ("call", "trim", (), (S(2),))]
    real_comps = [("bin", "div", ("id", "r1", ()), ("lit", "float", "2.5")), ("bin", "add", ("id", "r1", ()), I(1)),
                  ("un", "neg", ("id", "r1", ()))]
    bool_comps = [("cmp", "gt", I(1), I(2)), ("bool", "and", ("cmp", "gt", I(1), I(2)), ("id", "b1", ())),
                  ("un", "not", ("id", "b1", ())), ("call", "contains", (), (S(1), S(2)))]
    for f in ("contains", "startswith", "endswith"):
        for a in str_comps + [S(1)]:
            for b in str_comps + [S(2), ("lit", "str", "x")]:
                call = ("call", f, (), (a, b))
                yield call
                yield ("cmp", "eq", call, ("lit", "bool", "true"))
                yield ("cmp", "ne", ("lit", "bool", "false"), call)
                yield ("un", "not", call)
                yield ("bool", "or", call, ("cmp", "eq", I(1), I(2)))
    for a in str_comps + [S(1)]:
        for b in str_comps + [S(2)]:
            for outer in int_comps[:3]:
                yield ("cmp", "eq", ("call", "indexof", (), (a, b)), outer)
            yield ("cmp", "lt", ("bin", "mul", ("call", "indexof", (), (a, b)), I(1)), I(2))
            yield ("cmp", "lt", ("bin", "sub", I(1), ("call", "indexof", (), (a, b))), I(2))
            yield ("cmp", "eq", ("un", "neg", ("call", "indexof", (), (a, b))), I(2))
            yield ("cmp", "ge", ("bin", "mod", I(1), ("call", "indexof", (), (a, b))), ("un", "neg", ("bin", "add", ("call", "indexof", (), (a, b)), I(2))))
            yield ("cmp", "eq", ("call", "concat", (), (a, b)), S(1))
    for a in str_comps + [S(1)]:
        yield ("cmp", "gt", ("call", "length", (), (a,)), ("bin", "sub", I(1), I(2)))
        for i in int_comps:
            yield ("cmp", "eq", ("call", "substring", (), (a, i)), S(2))
            yield ("cmp", "eq", ("call", "substring", (), (a, i, ("bin", "mul", I(1), I(2)))), S(2))
        for f in ("tolower", "toupper", "trim"):
            yield ("cmp", "eq", ("call", f, (), (a,)), S(2))
    for f in ("round", "floor", "ceiling"):
        for r in real_comps:
            yield ("cmp", "le", ("call", f, (), (r,)), ("lit", "float", "1.5"))
            yield ("cmp", "le", ("bin", "mul", ("call", f, (), (r,)), ("lit", "float", "2.0")), ("id", "r1", ()))
    for f in ("year", "month", "day", "hour", "minute"):
        yield ("cmp", "eq", ("call", f, (), (("id", "t1", ()),)), ("bin", "add", I(1), I(2)))
        yield ("cmp", "eq", ("bin", "mul", ("call", f, (), (("id", "t1", ()),)), I(1)), I(2))
    yield ("cmp", "eq", ("call", "date", (), (("id", "t1", ()),)), ("id", "d1", ()))
    for b1 in bool_comps:
        for b2 in bool_comps:
            yield ("cmp", "eq", b1, b2)
            yield ("bool", "and", ("bool", "or", b1, b2), ("un", "not", b1))
    # durations, now
    yield ("cmp", "gt", ("id", "t1", ()), ("bin", "sub", ("call", "now", (), ()), ("lit", "duration", "P1D")))
    yield ("cmp", "gt", ("bin", "add", ("id", "t1", ()), ("lit", "duration", "P1DT2H")), ("call", "now", (), ()))
    yield ("cmp", "lt", ("bin", "sub", ("id", "t1", ()), ("lit", "duration", "-P1Y2M3DT4H5M6S")), ("lit", "datetime", "2020-01-01T00:00:00Z"))
    yield ("cmp", "eq", ("id", "g", ()), ("lit", "guid", "123e4567-e89b-12d3-a456-426614174000"))
    for z in ("PT0S", "P0D", "-P0DT0H", "P0DT5H", "PT0.5S"):
        yield ("cmp", "ge", ("bin", "add", ("id", "t1", ()), ("lit", "duration", z)), ("id", "t1", ()))
        yield ("cmp", "eq", ("id", "dur", ()), ("lit", "duration", z))


ATHENA_ONLY = [
    ("call", "hassubset", (), (("id", "l1", ()), ("list", (("lit", "int", "1"), ("lit", "int", "2"))))),
    ("cmp", "eq", ("call", "length", (), (("list", (("lit", "int", "1"), ("lit", "int", "2"))),)), ("lit", "int", "2")),
    ("cmp", "eq", ("call", "substring", (), (("list", (("lit", "int", "1"), ("lit", "int", "2"))), ("lit", "int", "1"))), ("id", "l1", ())),
]


def plan(tier, seed, scale):
    K = 16
    tasks = [{"name": "exh-%d" % i, "kind": "exh", "i": i, "k": 4} for i in range(4)]
    total = int((24000 if tier == "quick" else 150000) * scale)
    for i in range(K):
        tasks.append({"name": "rand-%d" % i, "kind": "rand", "n": max(total // K, 5), "shard": i,
                      "depth": 4 if tier == "quick" else 5})
    return tasks


def run_task(task, seed, acc):
    def one(t, dialect=None):
        case = {"term": to_json(t)}
        if dialect:
            case["dialect"] = dialect
        r = check_case(case)
        ex = case.pop("_excluded", 0)
        acc.cls("dialects_excluded_by_known_finding", ex)
        nt = nontrivial(t)
        acc.case(key=digest(semcheck.skeleton(t)), nontrivial=nt, n=6 if not dialect else 2,
                 sample={"filter": printer.render(uniquify(t))})
        if nt:
            acc.cls("nested_operator_under_a_different_one")
        if r:
            acc.fail(r[0], case, r[1])

    if task["kind"] == "exh":
        for idx, t in enumerate(exhaustive_terms()):
            if idx % task["k"] == task["i"]:
                one(t)
        if task["i"] == 0:
            for t in ATHENA_ONLY:
                one(t, dialect="athena")
        acc.extra["exhaustive"] = True
        return
    F = fragment()
    hyp_run(gen_typed.pred(task["depth"], F), one, task["n"], seed * 1000 + task["shard"])
