"""C07 - no filter string can inject SQL through the raw SQL dialects."""
import itertools

from hypothesis import strategies as st

from .. import db_sqlite, gen_typed, lib, printer, sqllex
from ..runner import digest, hyp_run, known_ids
from ..terms import children, from_json, rebuild, to_json, walk

PROPERTY_ID = "C07"
RULE = ("templates = typed filters of the SQL fragment whose string literals (in every position: comparison "
        "operand either side, in-list element, each argument of each string function, nested calls) and field "
        "names are holes; two instantiations: benign (s0, s1 ... / f0, f1 ...) and adversarial (generated text "
        "biased to ' \" \\ % _ ; -- /* */ NUL U+2019 U+02BC plus 40 fixed payloads; identifiers over Unicode word "
        "characters), each prefixed with a unique marker; x {standard, SQLite, Athena} x alias {absent, present}. "
        "Oracle (metamorphic non-interference under an independent SQL-92 lexer): both outputs tokenise "
        "completely; their token sequences are equal once string-literal and quoted-identifier tokens are "
        "replaced by placeholders; each hole's marker occurs in exactly one string token; every quoted identifier "
        "is an expected field name or the alias; no comment token and no ';' outside literals; SQLite prepares "
        "the adversarial clause whenever it prepares the benign one. Exhaustive: every (function, argument) hole "
        "x 40 payloads. Non-trivial: the adversarial content has a metacharacter and the hole is not a plain "
        "comparison operand; distinct by (template, contents, dialect)."
        " Field holes are also filled with hostile spellings over characters that are never OData syntax (\" ; $ [ ] { } \\ # @ ! ? `): the lexer must reject them, or, if one is ever accepted, it must still end up in exactly one quoted identifier.")
ASSUMPTIONS = ["SQL-92 lexical rules: '' is the only escape inside '...' strings, backslash is an ordinary character",
               "standard and Athena outputs are judged by the harness lexer only; SQLite text is also prepared by sqlite3"]

FS = gen_typed.Fragment("sql", funcs=gen_typed.STRING_FUNCS + gen_typed.DATE_FUNCS + ["round", "floor", "ceiling"],
                        neg=True, bare_bool=True, null_left=True, dt_offsets="all")

PAYLOADS = [
    "'", "''", "'''", "' OR 1=1 --", "' OR '1'='1", "'; DROP TABLE item; --", "%'; DROP TABLE item; --",
    "\\", "\\'", "\\' OR 1=1 --", "\\\\'", "%", "_", "%%", "__", "\\%", "\\_", "%' --", "a%b_c", "/*", "*/", "/* x */",
    "--", "-- x", ";", "; SELECT 1", "\"", "\"\"", "\" OR \"\"=\"", "\x00", "\x00'", "’", "ʼ", "’ OR 1=1", "`",
    "$$", "'||'", "' || (SELECT 1) || '", "') OR ('1'='1", "%' ESCAPE '\\",
    "＇ OR 1=1 --", "a＇b", "＼＇", "％＿",
    "2021-05-05' OR '1'='1", "2021-05-05') OR ('1'='1", "2021-05-05T10:00:00Z' --", "12:30:00' OR 1=1 --",
    "123e4567-e89b-12d3-a456-426614174000' OR '", "true' OR 't'='t", "1' OR '1'='1", "P1D' --",
]
ADV_ALPHABET = "ab'\"\\%_;-/* \x00’ʼ()|=1\n＇＂＼％＿；﹨﹣＊／"   # incl. compatibility forms that NFKC-normalise to metacharacters


LONG_UNITS = ["'", "''", "%", "_", "\\", "a'", "\x00", "' OR 1=1 --", "’", "a", "\\'", "%'", "\x00'"]
LONG_SIZES = [16, 17, 18, 32, 33, 64, 65, 129, 300, 1025]
HUGE_SIZES = [49997, 49998, 49999, 50000, 50001, 65536]


def long_strings():
    """Payloads that are long along the size ladder: n repetitions of a metacharacter unit, or a
    long harmless run that ends in a quote right at a limit engines are known to have."""
    rep = st.tuples(st.sampled_from(LONG_UNITS), st.sampled_from(LONG_SIZES)).map(lambda p: p[0] * p[1])
    tail = st.tuples(st.sampled_from(LONG_SIZES), st.sampled_from(["'", "''", "\\'", "%'", "' OR 1=1 --"])).map(
        lambda p: "a" * p[0] + p[1])
    huge = st.tuples(st.sampled_from(HUGE_SIZES), st.sampled_from(["'", "' OR 1=1 --", "''", "%"])).map(
        lambda p: "a" * p[0] + p[1])
    return st.one_of(rep, rep, rep, tail, tail, tail, tail, huge)


def adv_strings():
    short = st.one_of(st.sampled_from(PAYLOADS), st.text(alphabet=ADV_ALPHABET, max_size=10),
                      st.text(alphabet=st.characters(blacklist_categories=("Cs",), blacklist_characters="~"), max_size=6))
    return st.one_of(*([short] * 14 + [long_strings()]))


def adv_idents():
    head = st.sampled_from(list("abcXYZ_"))
    tail = st.text(alphabet=st.sampled_from(list("abcXYZ_019éñßЖ中")), max_size=8)
    return st.tuples(head, tail).map("".join).filter(
        lambda n: n.lower() not in ("not", "null", "true", "false", "any", "all", "in", "and", "or", "eq", "ne", "lt",
                                    "le", "gt", "ge", "add", "sub", "mul", "div", "mod"))


def hostile_idents():
    """Field spellings with characters outside the identifier alphabet: the lexer is expected to
    reject them (that restriction is the mechanism); if one is ever accepted it must still end up
    inside exactly one quoted identifier."""
    return st.tuples(st.sampled_from(list("abX_")), st.text(alphabet=st.sampled_from(list("ab\";$[]{}\\#@!?`")), min_size=1, max_size=5)).map("".join).filter(is_hostile)


def is_hostile(name):
    import re
    return re.fullmatch(r"\w+", name) is None


def instantiate(t, strings, fields):
    """Replace the i-th string literal by strings[i] and field name f by fields[f]."""
    counter = [0]

    def go(x):
        if x[0] == "lit" and x[1] == "str":
            i = counter[0]
            counter[0] += 1
            return ("lit", "str", strings[i])
        if x[0] == "id":
            return ("id", fields.get(x[1], x[1]), x[2])
        cs = children(x)
        return rebuild(x, [go(c) for c in cs]) if cs else x

    return go(t)


def string_holes(t):
    return [x for x in walk(t) if x[0] == "lit" and x[1] == "str"]


def field_names(t):
    out = []
    for x in walk(t):
        if x[0] == "id" and x[1] not in out:
            out.append(x[1])
    return out


def dialects():
    from odata_query.sql import AstToAthenaSqlVisitor, AstToSqliteSqlVisitor, AstToSqlVisitor
    return [("standard", AstToSqlVisitor), ("sqlite", AstToSqliteSqlVisitor), ("athena", AstToAthenaSqlVisitor)]


def athena_clean(name):
    import re
    return re.sub(r"[^a-zA-Z0-9_]", "_", name.lower())


def translate(cls, alias, term):
    from odata_query import exceptions
    text = printer.render(term)
    try:
        a = lib.parse(text)
    except Exception as e:
        return ("parse-exc", type(e).__name__, text)
    try:
        out = cls(alias).visit(a) if alias else cls().visit(a)
    except exceptions.ODataException as e:
        return ("lib-exc", type(e).__name__, text)
    except Exception as e:
        return ("foreign-exc", "%s@%s" % (type(e).__name__, lib.innermost_frame(e)), text)
    # the same tree through a long-lived visitor that has seen other filters before, some of which it
    # refused or choked on: what it emits must be what a new visitor emits
    key = (cls, alias)
    if key not in _LONG_LIVED:
        _LONG_LIVED[key] = [cls(alias) if alias else cls(), 0]
    slot = _LONG_LIVED[key]
    slot[1] += 1
    if slot[1] % 3 == 0:
        try:
            slot[0].visit(lib.parse(UPSETTING[(slot[1] // 3) % len(UPSETTING)]))
        except Exception:
            pass
    try:
        again = slot[0].visit(a)
    except Exception as e:
        _LONG_LIVED.pop(key, None)
        return ("reuse-differs", "long-lived visitor raised %s: %s" % (type(e).__name__, e), text)
    if again != out:
        _LONG_LIVED.pop(key, None)
        return ("reuse-differs", "new visitor -> %s ; long-lived visitor -> %s" % (out, again), text)
    return ("ok", out, text)


_LONG_LIVED = {}
# filters a visitor refuses or chokes on half-way (ill-typed arguments, unsupported functions, lambdas)
UPSETTING = ["contains(title, price add 1)", "startswith(name, 5)", "geo.length(loc) gt 1", "my.fn(a, 'x') eq 1",
             "endswith(concat(a, 'x'), b sub 2)", "tags/any(t: t eq 'x')", "indexof(name, 3) eq 1", "a eq duration'P1D'",
             "substring(name, 'x') eq 'y'", "hassubset((1, 2), (1,))", "not_a_function(a)", "length(5) eq 1",
             "a in ('x', contains(b, 3))", "contains('lit', name add 'x')"]


def check_case(case):
    t = from_json(case["term"])
    n = len(string_holes(t))
    fnames = field_names(t)
    ben_s = ["s%d" % i for i in range(n)]
    # the unique marker goes in front of or behind the adversarial content (a defect may only look at
    # how a string *starts*, e.g. "looks like a date")
    if case.get("marker") == "suffix":
        adv_s = ["%s~h%d~" % (case["strings"][i] if i < len(case["strings"]) else "", i) for i in range(n)]
    else:
        adv_s = ["h%d~%s" % (i, case["strings"][i] if i < len(case["strings"]) else "") for i in range(n)]
    ben_f = {f: "f%d" % j for j, f in enumerate(fnames)}
    adv_f = {f: case["fields"][j] for j, f in enumerate(fnames)} if case.get("fields") else {f: f for f in fnames}
    ben_t = instantiate(t, ben_s, ben_f)
    adv_t = instantiate(t, adv_s, adv_f)
    real_t = instantiate(t, adv_s, {})      # real column names, adversarial strings (for sqlite3)
    realb_t = instantiate(t, ben_s, {})
    fences = known_ids(PROPERTY_ID) if case.get("_fenced", True) else set()
    for dname, cls in dialects():
        if case.get("dialect") and case["dialect"] != dname:
            continue
        if "S8" in fences and dname == "standard" and any(x[0] == "call" and x[1] in ("floor", "ceiling") for x in walk(t)):
            # the standard dialect's floor/ceiling template repeats its argument text (known finding S8)
            case["_excluded"] = case.get("_excluded", 0) + 1
            continue
        for alias in (None, "t"):
            rb = translate(cls, alias, ben_t)
            ra = translate(cls, alias, adv_t)
            for r_ in (rb, ra):
                if r_[0] == "reuse-differs":
                    return ("reused-visitor-differs", "%s alias=%r %r: %s" % (dname, alias, r_[2], r_[1]))
            if rb[0] != "ok":
                if ra[0] == rb[0]:
                    continue
                return ("outcome-depends-on-content", "%s: benign %r -> %s, adversarial %r -> %s" % (dname, rb[2], rb[:2], ra[2], ra[:2]))
            if ra[0] == "parse-exc" and ra[1] in ("TokenizingException", "ParsingException") and \
                    any(is_hostile(v) for v in adv_f.values()):
                case["_hostile_rejected"] = case.get("_hostile_rejected", 0) + 1
                continue
            if ra[0] != "ok":
                return ("adversarial-rejected:" + ra[0], "%s: benign %r ok, adversarial %r -> %s" % (dname, rb[2], ra[2], ra[1]))
            sb, sa_ = rb[1], ra[1]
            if not isinstance(sa_, str) or not isinstance(sb, str):
                return ("non-string-output", "%s: %r -> %r" % (dname, ra[2], sa_))
            tb, ta = sqllex.lex(sb), sqllex.lex(sa_)
            for toks, sql, which in ((tb, sb, "benign"), (ta, sa_, "adversarial")):
                bad = [k for k, _ in toks if k in ("err", "comment", "semi")]
                if bad:
                    return ("%s-token-outside-literals" % bad[0], "%s %s: %r -> %s" % (dname, which, ra[2] if which == "adversarial" else rb[2], sql))
            if sqllex.shape(tb) != sqllex.shape(ta):
                return ("token-sequence-changed", "%s: benign %r -> %s ; adversarial %r -> %s" % (dname, rb[2], sb, ra[2], sa_))
            strs = [txt.replace("\\", "") for k, txt in ta if k == "str"]
            for i in range(n):
                marker = ("~h%d~" % i) if case.get("marker") == "suffix" else ("h%d~" % i)
                cnt = sum(1 for s_ in strs if marker in s_)
                if cnt != 1:
                    return ("string-not-in-exactly-one-literal", "%s: %r -> %s : marker %s in %d string tokens" % (dname, ra[2], sa_, marker, cnt))
            expected = set()
            for f in fnames:
                expected.add(athena_clean(adv_f[f]) if dname == "athena" else adv_f[f])
            qids = [txt for k, txt in ta if k == "qid"]
            for q in qids:
                if q not in expected and not (alias and q == alias):
                    return ("unexpected-quoted-identifier", "%s: %r -> %s : %r" % (dname, ra[2], sa_, q))
            for e_ in expected:
                if e_ not in qids:
                    return ("field-not-a-quoted-identifier", "%s: %r -> %s : %r missing" % (dname, ra[2], sa_, e_))
            if dname == "sqlite" and alias is None:
                r1 = translate(cls, None, realb_t)
                r2 = translate(cls, None, real_t)
                if r1[0] == "ok" and r2[0] == "ok" and "\x00" in r2[1]:
                    # Python's sqlite3 refuses any statement text with a NUL before SQLite sees it:
                    # no second opinion available (counted), the lexer verdict above stands
                    case["_sqlite_nul_skipped"] = case.get("_sqlite_nul_skipped", 0) + 1
                elif r1[0] == "ok" and r2[0] == "ok":
                    ok1, _ = db_sqlite.prepares(r1[1])
                    ok2, msg = db_sqlite.prepares(r2[1])
                    if ok1 and not ok2:
                        return ("sqlite-rejects-adversarial", "%r -> %s : %s" % (r2[2], r2[1], msg))
                    case["_sqlite_prepared"] = case.get("_sqlite_prepared", 0) + (1 if ok2 else 0)
    return None


def replay(case):
    return check_case(dict(case, _fenced=False))


def signature(case):
    from ..semcheck import skeleton
    return skeleton(from_json(case["term"]))


def shrink(case, bucket):
    from .. import semcheck, shrink as shr
    case = {k: v for k, v in case.items() if not k.startswith("_")}
    t = from_json(case["term"])

    def still_t(c):
        if not semcheck.in_fragment(c, FS):
            return False
        n = len(string_holes(c))
        nf = len(field_names(c))
        c2 = dict(case, term=to_json(c), strings=(case["strings"] + [case["strings"][0] if case["strings"] else ""] * n)[:max(n, 0)],
                  fields=(case["fields"] + ["zz"] * nf)[:nf] if case.get("fields") else None)
        r = check_case(c2)
        return bool(r) and r[0] == bucket

    # keep the hole contents aligned: only accept shrinks that keep failing with the first contents
    t2 = shr.shrink_term(t, still_t, budget=120, extra_leaves=semcheck.SIMPLE_LEAVES)
    n = len(string_holes(t2))
    nf = len(field_names(t2))
    case = dict(case, term=to_json(t2),
                strings=(case["strings"] + [case["strings"][0] if case["strings"] else ""] * n)[:n],
                fields=(case["fields"] + ["zz"] * nf)[:nf] if case.get("fields") else None)
    for i in range(len(case["strings"])):
        def still_s(s, i=i):
            ss = list(case["strings"])
            ss[i] = s
            r = check_case(dict(case, strings=ss))
            return bool(r) and r[0] == bucket
        if still_s(""):
            case["strings"][i] = ""
        else:
            case["strings"][i] = shr.shrink_text(case["strings"][i], still_s, budget=60)
    return case


META = set("'\"\\%_;-/*\x00’ʼ")


def nontrivial(t, strings):
    if not any(set(s) & META for s in strings):
        return False
    for x in walk(t):
        if x[0] == "call" and any(a[0] == "lit" and a[1] == "str" for a in x[3]):
            return True
        if x[0] == "list" and any(a[0] == "lit" and a[1] == "str" for a in x[1]):
            return True
    return False


def exhaustive_templates():
    S = ("lit", "str", "x")
    c = ("id", "s1", ())
    fns2 = ["contains", "startswith", "endswith", "indexof", "concat"]
    for fn in fns2:
        for args in ((S, c), (c, S), (S, S)):
            call = ("call", fn, (), args)
            if fn in ("contains", "startswith", "endswith"):
                yield call
                yield ("cmp", "eq", call, ("lit", "bool", "true"))
            elif fn == "indexof":
                yield ("cmp", "eq", call, ("lit", "int", "1"))
            else:
                yield ("cmp", "eq", call, c)
                yield ("call", "contains", (), (c, call))
    for fn in ["length"]:
        yield ("cmp", "eq", ("call", fn, (), (S,)), ("lit", "int", "1"))
    for fn in ["tolower", "toupper", "trim"]:
        yield ("cmp", "eq", ("call", fn, (), (S,)), c)
        yield ("call", "contains", (), (c, ("call", fn, (), (S,))))
        yield ("call", "startswith", (), (("call", fn, (), (S,)), c))
    yield ("cmp", "eq", ("call", "substring", (), (S, ("lit", "int", "1"))), c)
    yield ("cmp", "eq", ("call", "substring", (), (S, ("lit", "int", "1"), ("lit", "int", "2"))), S)
    yield ("cmp", "eq", c, S)
    yield ("cmp", "ne", S, c)
    # accepted (if ill-typed) comparisons of a string with every other kind of operand, both sides
    others = [("id", "d1", ()), ("id", "t1", ()), ("id", "i1", ()), ("id", "b1", ()),
              ("call", "date", (), (("id", "t1", ()),)), ("call", "year", (), (("id", "t1", ()),)),
              ("call", "length", (), (("id", "s1", ()),)), ("lit", "date", "2020-01-01"),
              ("lit", "datetime", "2020-01-01T00:00:00Z"), ("lit", "int", "5"), ("lit", "bool", "true"),
              ("lit", "guid", "123e4567-e89b-12d3-a456-426614174000"), ("lit", "duration", "P1D"),
              ("bin", "add", ("id", "i1", ()), ("lit", "int", "1"))]
    for o in others:
        for op in ("eq", "ne", "lt", "ge"):
            yield ("cmp", op, o, S)
            yield ("cmp", op, S, o)
        yield ("cmp", "in", o, ("list", (S, S)))
    yield ("cmp", "in", c, ("list", (S, S, S)))
    yield ("cmp", "in", S, ("list", (c, S)))
    yield ("un", "not", ("cmp", "eq", c, S))


def plan(tier, seed, scale):
    K = 16
    tasks = [{"name": "exh-%d" % i, "kind": "exh", "i": i, "k": 4} for i in range(4)]
    total = int((12000 if tier == "quick" else 150000) * scale)
    for i in range(K):
        tasks.append({"name": "rand-%d" % i, "kind": "rand", "n": max(total // K, 5), "shard": i,
                      "depth": 3 if tier == "quick" else 4})
    return tasks


def run_task(task, seed, acc):
    def one(case):
        t = from_json(case["term"])
        r = check_case(case)
        prepared = case.pop("_sqlite_prepared", 0)
        acc.cls("dialects_excluded_by_known_finding", case.pop("_excluded", 0))
        acc.cls("hostile_field_spelling_rejected_by_lexer", case.pop("_hostile_rejected", 0))
        nt = nontrivial(t, case["strings"])
        acc.case(key=digest([case["term"], case["strings"], case.get("fields"), case.get("marker")]), nontrivial=nt, n=6,
                 sample={"adversarial_filter": printer.render(instantiate(
                     t, ["h%d~%s" % (i, s) for i, s in enumerate(case["strings"])], {}))[:300]})
        acc.cls("sqlite_prepared_adversarial", prepared)
        acc.cls("sqlite_second_opinion_skipped_nul", case.pop("_sqlite_nul_skipped", 0))
        if case.get("fields"):
            acc.cls("field_names_fuzzed")
        if nt:
            acc.cls("metachar_in_function_or_list_hole")
        if r:
            acc.fail(r[0], case, r[1])

    if task["kind"] == "exh":
        idx = 0
        for t in exhaustive_templates():
            n = len(string_holes(t))
            for p in PAYLOADS:
                idx += 1
                if idx % task["k"] != task["i"]:
                    continue
                one({"term": to_json(t), "strings": [p] * n, "fields": None})
                one({"term": to_json(t), "strings": [p] * n, "fields": None, "marker": "suffix"})
        acc.extra["exhaustive"] = True
        return

    @st.composite
    def cases(draw):
        t = draw(gen_typed.pred(task["depth"], FS))
        n = len(string_holes(t))
        if n <= 12:
            strings = [draw(adv_strings()) for _ in range(n)]
            # at most one payload of tens of thousands of characters per case
            huge = [i for i, x in enumerate(strings) if len(x) > 5000]
            for i in huge[1:]:
                strings[i] = strings[i][:40] + strings[i][-20:]
        else:
            # a long list of holes: a few drawn payloads (none of the huge ones) cycling through it
            pool = [x if len(x) <= 400 else x[:40] + x[-20:] for x in (draw(adv_strings()) for _ in range(5))]
            strings = [pool[(i * 7 + i // 5) % 5] if i % 3 else "v%d" % i for i in range(n)]
        fields = None
        k = draw(st.integers(0, 5))
        if k == 1:
            fields = [draw(hostile_idents()) for _ in field_names(t)]
        if k == 0:
            fields = [draw(adv_idents()) for _ in field_names(t)]
            if len(set(fields)) != len(fields):
                fields = None
        return {"term": to_json(t), "strings": strings, "fields": fields,
                "marker": draw(st.sampled_from(["prefix", "suffix"]))}

    hyp_run(cases(), one, task["n"], seed * 1000 + task["shard"])
