"""C12 - a backend that cannot express a construct refuses it instead of mistranslating."""
import re

from hypothesis import strategies as st

from .. import db_orm, gen_typed, lib, printer, sqllex, sqlparse
from ..decode import decode
from ..runner import digest, hyp_run, known_ids
from ..terms import children, from_json, ident, rebuild, to_json, walk
from . import c09

PROPERTY_ID = "C12"
RULE = ("exhaustive matrix: every node kind the parser can produce (11 literal kinds, unary minus, to-one path, "
        "relationship, any(), any(p), all(p), custom call with positional / named parameters, each of the 33 "
        "built-in functions with well-typed arguments incl. list-typed ones) x every operand position it is "
        "well-typed in (alone, comparison left/right, in-list element and subject, function argument, arithmetic "
        "operand, under and/or/not) x 7 backends (standard, SQLite, Athena, round-trip, Django, SQLAlchemy ORM, "
        "Core); plus unknown-field names on SQLAlchemy (incl. names that are Python attributes of a mapped class) "
        "in every position, function-identity pairs (length / geo.length / my.length ...), and random typed "
        "composites. Oracle: the outcome is (i) a complete translation: text backends parse under the harness SQL "
        "parser and contain every uniquely valued leaf, round-trip re-parses to the same term, ORM clauses compile "
        "and mention every field and literal; or (ii) an ODataException; or (iii) Core's documented "
        "NotImplementedError on a filter with a path or lambda. Anything else (None/partial output, placeholder "
        "text, foreign exception, unknown field not reported as InvalidFieldException, two different functions "
        "translated identically) is a violation. Each (construct, position, backend) cell is a case."
        " Null is also placed as in-subject, as the only element(s) of an in-list (also under not/and), as arithmetic operand and function argument; all-zero and all-part durations; names that exist on an enclosing model but not on the lambda's child model; relational random composites.")
ASSUMPTIONS = ["GeoDjango's system libraries are absent in this sandbox: Django geo cells raise the documented ImportError and are counted, not asserted",
               "ORM completeness is judged on the compiled SQL text + parameters (sqlite dialect)"]

I1, S1, R1, B1, T1, D1, G1 = (ident(n) for n in ("i1", "s1", "r1", "b1", "t1", "d1", "g1"))
LSTR = ("list", (("lit", "str", "a"), ("lit", "str", "b")))
LINT = ("list", (("lit", "int", "1"), ("lit", "int", "2")))
GEO = ("lit", "geo", "POINT(1 2)")


def constructs():
    """(name, term, type) for every node kind / function."""
    out = [
        ("lit-null", ("lit", "null", ""), "Null"), ("lit-int", ("lit", "int", "5"), "Int"),
        ("lit-float", ("lit", "float", "1.5"), "Real"), ("lit-bool", ("lit", "bool", "true"), "Bool"),
        ("lit-str", ("lit", "str", "x'y"), "Str"), ("lit-geo", GEO, "Geo"),
        ("lit-guid", ("lit", "guid", "123e4567-e89b-12d3-a456-426614174000"), "Guid"),
        ("lit-date", ("lit", "date", "2020-01-01"), "Date"), ("lit-time", ("lit", "time", "12:30:00"), "Time"),
        ("lit-datetime", ("lit", "datetime", "2020-01-01T10:00:00Z"), "DateTime"),
        ("lit-datetime-fraction", ("lit", "datetime", "2020-01-01T10:00:00.123456Z"), "DateTime"),
        ("lit-datetime-fraction-offset", ("lit", "datetime", "2020-01-01T10:00:00.5-05:30"), "DateTime"),
        ("lit-datetime-no-seconds", ("lit", "datetime", "2020-01-01T10:00+01:00"), "DateTime"),
        ("lit-duration", ("lit", "duration", "P1DT2H"), "Duration"),
        ("lit-duration-zero", ("lit", "duration", "PT0S"), "Duration"),
        ("lit-duration-zero-days", ("lit", "duration", "-P0DT0H"), "Duration"),
        ("lit-duration-all-parts", ("lit", "duration", "P1Y2M3DT4H5M6.5S"), "Duration"),
        ("field", I1, "Int"), ("neg", ("un", "neg", I1), "Int"),
        ("path", ("path", ident("owner"), "name"), "Str"), ("path-int", ("path", ident("owner"), "age"), "Int"),
        ("path-deep", ("path", ("path", ident("owner"), "org"), "name"), "Str"),
        ("relationship", ident("owner"), "Rel"),
        ("any-empty", ("lambda", ident("parts"), "any", None, None), "Bool"),
        ("any", ("lambda", ident("parts"), "any", "p", ("cmp", "gt", ("path", ident("p"), "n"), ("lit", "int", "1"))), "Bool"),
        ("all", ("lambda", ident("tags"), "all", "x", ("cmp", "eq", ("path", ident("x"), "label"), ("lit", "str", "a"))), "Bool"),
        ("custom-call", ("call", "f", ("my",), (I1, ("lit", "int", "2"))), "Any"),
        ("custom-named", ("call", "f", ("my",), (("named", "a", I1), ("named", "b", ("lit", "str", "z")))), "Any"),
        ("list", LINT, "ListInt"),
    ]
    fn = [
        ("concat", (S1, ("lit", "str", "z")), "Str"), ("concat-list", (LINT, LINT), "ListInt"),
        ("contains", (S1, ("lit", "str", "z")), "Bool"), ("contains-list", (LSTR, LSTR), "Bool"),
        ("endswith", (S1, ("lit", "str", "z")), "Bool"), ("startswith", (S1, ("lit", "str", "z")), "Bool"),
        ("indexof", (S1, ("lit", "str", "z")), "Int"), ("indexof-list", (LINT, LINT), "Int"),
        ("length", (S1,), "Int"), ("length-list", (LINT,), "Int"),
        ("substring", (S1, ("lit", "int", "1")), "Str"), ("substring3", (S1, ("lit", "int", "1"), ("lit", "int", "2")), "Str"),
        ("substring3-zero", (S1, ("lit", "int", "0"), ("lit", "int", "0")), "Str"),
        ("substring-list", (LINT, ("lit", "int", "1")), "ListInt"),
        ("hassubset", (LINT, LINT), "Bool"), ("hassubsequence", (LSTR, LSTR), "Bool"),
        ("matchesPattern", (S1, ("lit", "str", "^a")), "Bool"),
        ("tolower", (S1,), "Str"), ("toupper", (S1,), "Str"), ("trim", (S1,), "Str"),
        ("date", (T1,), "Date"), ("time", (T1,), "Time"), ("day", (T1,), "Int"), ("month", (D1,), "Int"),
        ("year", (T1,), "Int"), ("hour", (T1,), "Int"), ("minute", (T1,), "Int"), ("second", (T1,), "Int"),
        ("fractionalseconds", (T1,), "Real"), ("totaloffsetminutes", (T1,), "Int"),
        ("totalseconds", (("lit", "duration", "PT90S"),), "Real"),
        ("maxdatetime", (), "DateTime"), ("mindatetime", (), "DateTime"), ("now", (), "DateTime"),
        ("ceiling", (R1,), "Real"), ("floor", (R1,), "Real"), ("round", (R1,), "Real"),
    ]
    for name, args, ty in fn:
        out.append(("fn-" + name, ("call", re.sub(r"(-list|3|3-zero)$", "", name), (), tuple(args)), ty))
    # list-typed arguments reached through chains of list-returning calls, depths from the size ladder
    for d in (2, 3, 4, 5, 6, 9, 10, 17):
        chain = LINT
        for i in range(d):
            chain = ("call", "concat", (), (chain, LINT)) if i % 3 == 0 else (
                ("call", "substring", (), (chain, ("lit", "int", "1"))) if i % 3 == 1 else ("call", "concat", (), (LINT, chain)))
        out.append(("list-chain-%d" % d, chain, "ListInt"))
        out.append(("fn-length-list-chain-%d" % d, ("call", "length", (), (chain,)), "Int"))
        out.append(("fn-indexof-list-chain-%d" % d, ("call", "indexof", (), (chain, LINT)), "Int"))
        out.append(("fn-contains-list-chain-%d" % d, ("call", "contains", (), (chain, LINT)), "Bool"))
        schain = S1
        for i in range(d):
            schain = ("call", "concat", (), (schain, ("lit", "str", "z%d" % i))) if i % 2 == 0 else ("call", "substring", (), (schain, ("lit", "int", "1")))
        out.append(("fn-length-str-chain-%d" % d, ("call", "length", (), (schain,)), "Int"))
    out.append(("fn-geo.distance", ("call", "distance", ("geo",), (ident("loc"), GEO)), "Real"))
    out.append(("fn-geo.intersects", ("call", "intersects", ("geo",), (ident("loc"), GEO)), "Bool"))
    out.append(("fn-geo.length", ("call", "length", ("geo",), (ident("loc"),)), "Real"))
    return out


PARTNER = {"Int": I1, "Real": R1, "Str": S1, "Bool": B1, "DateTime": T1, "Date": D1, "Guid": G1,
           "Time": ("lit", "time", "01:02:03"), "Duration": ("lit", "duration", "PT5M"),
           "Any": ("lit", "int", "7"), "Rel": ("lit", "int", "7")}
PARTNER_LIT = {"Int": ("lit", "int", "7"), "Real": ("lit", "float", "7.5"), "Str": ("lit", "str", "q"),
               "Date": ("lit", "date", "2021-02-03"), "DateTime": ("lit", "datetime", "2021-02-03T04:05:06Z"),
               "Guid": ("lit", "guid", "00000000-0000-0000-0000-000000000001")}


def placements(term, ty):
    """(position name, predicate term) for every operand position the construct is well-typed in."""
    out = []
    if ty == "Bool" and term[0] == "lit":
        return [("alone", term), ("cmp-left", ("cmp", "eq", term, B1)), ("cmp-right", ("cmp", "ne", B1, term))]
    if ty == "Bool":
        out.append(("alone", term))
        out.append(("and-left", ("bool", "and", term, ("cmp", "eq", I1, ("lit", "int", "7")))))
        out.append(("or-right", ("bool", "or", ("cmp", "eq", I1, ("lit", "int", "7")), term)))
        out.append(("not", ("un", "not", term)))
        out.append(("cmp-left", ("cmp", "eq", term, ("lit", "bool", "true"))))
        out.append(("cmp-right", ("cmp", "ne", ("lit", "bool", "false"), term)))
        return out
    if ty == "Null":
        return [("cmp-right", ("cmp", "eq", I1, term)), ("cmp-left", ("cmp", "ne", term, S1)),
                ("ordering-right", ("cmp", "gt", I1, term)), ("in-element", ("cmp", "in", I1, ("list", (term, ("lit", "int", "7"))))),
                ("in-subject", ("cmp", "in", term, ("list", (("lit", "int", "7"), I1)))),
                ("in-only-nulls", ("cmp", "in", I1, ("list", (term,)))),
                ("not-in-only-nulls", ("un", "not", ("cmp", "in", I1, ("list", (term, term))))),
                ("in-only-nulls-and", ("bool", "and", ("cmp", "gt", ident("k"), ("lit", "int", "7")), ("un", "not", ("cmp", "in", S1, ("list", (term,)))))),
                ("in-subject-under-or", ("bool", "or", ("cmp", "eq", S1, ("lit", "str", "a")),
                                          ("cmp", "in", term, ("list", (S1, ("lit", "str", "b")))))),
                ("arith-operand", ("cmp", "eq", ("bin", "add", I1, term), ("lit", "int", "7"))),
                ("fn-arg", ("cmp", "eq", ("call", "concat", (), (S1, term)), ("lit", "str", "q")))]
    if ty == "Geo":
        return [("fn-arg", ("call", "intersects", ("geo",), (ident("loc"), term)))]
    if ty in ("ListInt", "ListStr"):
        out = [("fn-arg", ("cmp", "eq", ("call", "length", (), (term,)), ("lit", "int", "2")))]
        if term[0] == "list":
            out.append(("in-list", ("cmp", "in", I1 if ty == "ListInt" else S1, term)))
        return out
    p = PARTNER.get(ty, ("lit", "int", "7"))
    out.append(("cmp-left", ("cmp", "eq", term, p)))
    out.append(("cmp-right", ("cmp", "le" if ty not in ("Guid", "Rel", "Any") else "eq", p, term)))
    if ty in PARTNER_LIT:
        out.append(("in-element", ("cmp", "in", p, ("list", (term, PARTNER_LIT[ty])))))
        out.append(("in-subject", ("cmp", "in", term, ("list", (PARTNER_LIT[ty], PARTNER_LIT[ty])))))
    if ty in ("Int", "Real"):
        out.append(("arith-left", ("cmp", "gt", ("bin", "add", term, ("lit", "int", "7")), ("lit", "int", "8"))))
        out.append(("arith-right", ("cmp", "gt", ("bin", "mul", ("lit", "int", "7"), term), ("lit", "int", "8"))))
        out.append(("fn-arg", ("cmp", "eq", ("call", "round", (), (term,)), ("lit", "float", "8.5"))))
        out.append(("neg-operand", ("cmp", "lt", ("un", "neg", term), ("lit", "int", "8"))))
    if ty == "Int":
        out.append(("fn-arg-index", ("cmp", "eq", ("call", "substring", (), (S1, term)), ("lit", "str", "q"))))
    if ty == "Str":
        out.append(("fn-arg", ("cmp", "eq", ("call", "tolower", (), (term,)), ("lit", "str", "q"))))
        out.append(("fn-arg-haystack", ("call", "contains", (), (term, ("lit", "str", "q")))))
        out.append(("fn-arg-needle", ("call", "startswith", (), (S1, term))))
    if ty in ("DateTime", "Date"):
        out.append(("fn-arg", ("cmp", "eq", ("call", "year", (), (term,)), ("lit", "int", "2020"))))
    if ty == "DateTime":
        out.append(("arith-left", ("cmp", "gt", ("bin", "add", term, ("lit", "duration", "PT5M")), T1)))
    if ty == "Duration":
        out.append(("arith-right", ("cmp", "gt", ("bin", "sub", T1, term), ("lit", "datetime", "2021-02-03T04:05:06Z"))))
        out.append(("fn-arg", ("cmp", "gt", ("call", "totalseconds", (), (term,)), ("lit", "float", "8.5"))))
    if ty == "Time":
        out.append(("fn-arg", ("cmp", "eq", ("call", "hour", (), (term,)), ("lit", "int", "8"))))
    return out


# ---- outcome classification -----------------------------------------------------------------------

def has_nav(t):
    return any(x[0] in ("path", "lambda") for x in walk(t))


def text_leaves(t):
    """Markers that must be findable in a text translation: field names and value literals."""
    out = []
    for x in walk(t):
        if x[0] == "id" and not x[2]:
            out.append(("field", x[1]))
        elif x[0] == "lit" and x[1] in ("int", "float"):
            out.append(("num", float(x[2])))
        elif x[0] == "lit" and x[1] == "str":
            out.append(("str", x[2]))
        elif x[0] == "lit" and x[1] in ("date", "time", "guid"):
            out.append(("str", x[2]))
        elif x[0] == "lit" and x[1] == "datetime":
            out.append(("dt", x[2]))
    return out


def fields_in_expr_position(t, bound=frozenset()):
    """Plain field identifiers that are operands (not function names / lambda variables / path segments)."""
    out = []
    k = t[0]
    if k == "id":
        if t[1] not in bound:
            out.append(t[1])
    elif k == "path":
        root = t
        while root[0] == "path":
            root = root[1]
        if root[1] not in bound:
            out.append(root[1])
    elif k == "call":
        for a in t[3]:
            out += fields_in_expr_position(a[2] if a[0] == "named" else a, bound)
    elif k == "lambda":
        out += fields_in_expr_position(t[1], bound)
        if t[4] is not None:
            out += fields_in_expr_position(t[4], bound | {t[3]})
    else:
        for c in children(t):
            out += fields_in_expr_position(c, bound)
    return out


def classify_text(dname, cls, t, a):
    from odata_query import exceptions
    try:
        sql = cls().visit(a)
    except exceptions.ODataException as e:
        return ("refused", type(e).__name__)
    except Exception as e:
        return ("VIOLATION", "foreign-exception:%s" % type(e).__name__, "%s: %s @%s" % (type(e).__name__, e, lib.innermost_frame(e)))
    if not isinstance(sql, str):
        return ("VIOLATION", "non-string-output", repr(sql))
    try:
        sqlparse.parse(sql, dname)
    except sqlparse.SqlSyntaxError as e:
        if "bare word" in str(e) or "empty" in str(e):
            return ("VIOLATION", "placeholder-or-missing-part", "%s : %s" % (sql, e))
        if dname == "standard" and any(x[0] == "call" and x[1] in ("floor", "ceiling") and not x[2] for x in walk(t)):
            return ("known", "S8", sql)
        return ("VIOLATION", "malformed-output", "%s : %s" % (sql, e))
    toks = sqllex.lex(sql)
    qids = {v for k, v in toks if k == "qid"}
    nums = {float(v) for k, v in toks if k == "num"}
    strs = [v.replace("\\", "") for k, v in toks if k == "str"]
    for kind, val in text_leaves(t):
        if kind == "field" and val not in fields_in_expr_position(t):
            continue
        ok = (kind == "field" and (val in qids or val.lower() in qids)) or (kind == "num" and val in nums) or \
             (kind == "str" and any(val.replace("\\", "") in s or val.replace("T", " ") in s for s in strs)) or \
             (kind == "dt" and any(c09.norm_dt(val) in c09.norm_dt(s) for s in strs))
        if not ok:
            return ("VIOLATION", "part-missing-from-output", "%s %r not in %s" % (kind, val, sql))
    return ("complete", sql)


def classify_roundtrip(t, a):
    from odata_query import exceptions
    from odata_query.roundtrip import AstToODataVisitor
    try:
        out = AstToODataVisitor().visit(a)
    except exceptions.ODataException as e:
        return ("refused", type(e).__name__)
    except Exception as e:
        return ("VIOLATION", "foreign-exception:%s" % type(e).__name__, "%s: %s @%s" % (type(e).__name__, e, lib.innermost_frame(e)))
    if not isinstance(out, str):
        return ("VIOLATION", "non-string-output", repr(out))
    try:
        back = decode(lib.parse(out))
    except Exception as e:
        return ("VIOLATION", "round-trip-output-does-not-parse", "%r: %s" % (out, e))
    if back != t:
        return ("VIOLATION", "round-trip-differs", "%r -> %r" % (out, back))
    return ("complete", out)


ITEM_COLUMNS = {"i1", "i2", "r1", "s1", "s2", "b1", "t1", "d1", "g1", "k"}


def _orm_columns(t):
    """Column names that must show up in the compiled SQL: plain Item columns, the last segment of
    a path, columns used in lambda bodies."""
    out = set()
    nodes = list(walk(t))
    inner = {x[1] for x in nodes if x[0] == "path"} | {x[1] for x in nodes if x[0] == "lambda"}
    for x in nodes:
        if x[0] == "id" and x[1] in ITEM_COLUMNS and not x[2]:
            out.add(x[1])
        elif x[0] == "path" and x not in inner:
            out.add(x[2])          # last segment of a maximal path: a column of the related table
    return out - {"owner", "org", "region", "home", "items", "parts", "tags", "owners"}


def _foldable(t):
    """Literals an ORM may legitimately fold away: operands of a null test against a literal."""
    out = []
    for x in walk(t):
        if x[0] == "cmp" and ("lit", "null", "") in (x[2], x[3]):
            other = x[3] if x[2] == ("lit", "null", "") else x[2]
            if not any(y[0] in ("id", "path", "lambda") for y in walk(other)):
                out += text_leaves(other)
    return out


def _has_constant_predicate(t):
    """A predicate without any field in it (1 eq 1, null eq 2.5, true): an ORM folds it and may
    drop whole sibling conditions with it, so completeness cannot be judged from the SQL."""
    for x in walk(t):
        if x[0] in ("cmp", "call") and not any(y[0] in ("id", "path", "lambda") for y in walk(x)):
            if x[0] == "cmp" or x[1] in ("contains", "startswith", "endswith"):
                return True
        if x[0] in ("bool", "un") and any(c[0] == "lit" for c in children(x)):
            return True
    return False


def _orm_complete(t, sql, params):
    if _has_constant_predicate(t):
        return None
    ptxt = [str(p) for p in params]
    # only the WHERE part counts: the SELECT list names every column anyway
    parts = re.split(r"\sWHERE\s", sql, maxsplit=1)
    low = parts[1].lower() if len(parts) == 2 else ""
    foldable = _foldable(t)
    for f in _orm_columns(t):
        if f.lower() not in low:
            return "field %r not in %s" % (f, sql)
    for kind, val in text_leaves(t):
        if kind == "field" or (kind, val) in foldable:
            continue
        if kind == "num":
            if not any(_numeq(p, val) for p in params) and not re.search(r"(?<![\d.])%s(?![\d.])" % re.escape(_numtxt(val)), sql):
                return "number %r neither in parameters %r nor in %s" % (val, ptxt, sql)
        else:
            v = val[:10] if kind == "dt" else val
            if not any(v in p or v.replace("-", "") in p.replace("-", "") for p in ptxt) and v not in sql:
                return "value %r neither in parameters %r nor in %s" % (val, ptxt, sql)
    return None


def _numeq(p, val):
    try:
        return float(p) == val and not isinstance(p, bool)
    except (TypeError, ValueError):
        return False


def _numtxt(val):
    return str(int(val)) if float(val).is_integer() else repr(val)


def classify_django(t, text):
    from odata_query import exceptions
    from odata_query.django import apply_odata_query
    M = db_orm.django_models()
    from django.core.exceptions import EmptyResultSet, FullResultSet
    try:
        qs = apply_odata_query(M.Item.objects, text)
        sql, params = qs.query.sql_with_params()
    except exceptions.ODataException as e:
        return ("refused", type(e).__name__)
    except (EmptyResultSet, FullResultSet):
        return ("complete", "<constant filter folded by the ORM>")
    except ImportError as e:
        if "GeoDjango" in str(e):
            return ("skipped", "geodjango-absent")
        return ("VIOLATION", "foreign-exception:ImportError", str(e))
    except Exception as e:
        return ("VIOLATION", "foreign-exception:%s" % type(e).__name__, "%s: %s @%s" % (type(e).__name__, str(e)[:200], lib.innermost_frame(e)))
    miss = _orm_complete(t, sql, list(params))
    if miss:
        return ("VIOLATION", "part-missing-from-output", miss)
    return ("complete", sql + " -- " + repr([str(p) for p in params]))


def classify_sqla(t, text, core):
    from odata_query import exceptions
    from odata_query.sqlalchemy import apply_odata_core, apply_odata_query
    S = db_orm.sqlalchemy_models()
    try:
        if core:
            stmt = apply_odata_core(S.sa.select(S.Item.__table__), text)
        else:
            stmt = apply_odata_query(S.sa.select(S.Item), text)
        c = stmt.compile(S.engine)
        sql, params = str(c), list(c.params.values())
    except exceptions.ODataException as e:
        return ("refused", type(e).__name__)
    except NotImplementedError as e:
        if core and has_nav(t):
            return ("refused", "NotImplementedError(documented)")
        return ("VIOLATION", "foreign-exception:NotImplementedError", str(e))
    except Exception as e:
        return ("VIOLATION", "foreign-exception:%s" % type(e).__name__, "%s: %s @%s" % (type(e).__name__, str(e)[:200], lib.innermost_frame(e)))
    miss = _orm_complete(t, sql, params)
    if miss:
        return ("VIOLATION", "part-missing-from-output", miss)
    return ("complete", sql + " -- " + repr([str(p) for p in params]))


BACKENDS = ["standard", "sqlite", "athena", "roundtrip", "django", "sqlalchemy-orm", "sqlalchemy-core"]


def classify(backend, t):
    text = printer.render(t)
    try:
        a = lib.parse(text)
    except Exception as e:
        return ("setup", "parse:%s" % type(e).__name__, "%r: %s" % (text, e))
    if backend in ("standard", "sqlite", "athena"):
        cls = dict(c09.dialects())[backend]
        return classify_text(backend, cls, t, a)
    if backend == "roundtrip":
        return classify_roundtrip(t, a)
    if backend == "django":
        return classify_django(t, text)
    return classify_sqla(t, text, core=backend.endswith("core"))


def check_case(case):
    if case.get("mode") == "depth":
        return check_depth(case)
    t = from_json(case["term"])
    if case.get("mode") == "unknown-field":
        return check_unknown_field(case)
    if case.get("mode") == "identity":
        return check_identity(case)
    if case.get("mode") == "depth":
        return check_depth(case)
    r = classify(case["backend"], t)
    case["_outcome"] = r[0]
    if r[0] == "VIOLATION":
        return ("%s:%s" % (case["backend"], r[1]), "%r on %s: %s" % (printer.render(t), case["backend"], r[2]))
    if r[0] == "known":
        return ("%s:known:%s" % (case["backend"], r[1]), "%r: %s" % (printer.render(t), r[2]))
    if r[0] == "setup":
        return ("setup:" + r[1], r[2])
    return None


def known_class(case, bucket):
    m = re.search(r":known:(\w+)$", bucket)
    if m:
        return m.group(1)
    return None


def check_unknown_field(case):
    """SQLAlchemy: a name that is not a field is always reported as InvalidFieldException."""
    from odata_query import exceptions
    from odata_query.sqlalchemy import apply_odata_core, apply_odata_query
    t = from_json(case["term"])
    text = printer.render(t)
    S = db_orm.sqlalchemy_models()
    for core in (False, True):
        try:
            if core:
                stmt = apply_odata_core(S.sa.select(S.Item.__table__), text)
            else:
                stmt = apply_odata_query(S.sa.select(S.Item), text)
            stmt.compile(S.engine)
        except exceptions.InvalidFieldException:
            continue
        except NotImplementedError:
            if core and has_nav(t):
                continue
            return ("unknown-field:foreign:NotImplementedError", "%r" % text)
        except exceptions.ODataException as e:
            return ("unknown-field:other-library-exception:%s" % type(e).__name__, "%s %r -> %s" % ("core" if core else "orm", text, e))
        except Exception as e:
            return ("unknown-field:foreign:%s" % type(e).__name__, "%s %r -> %s: %s" % ("core" if core else "orm", text, type(e).__name__, str(e)[:200]))
        return ("unknown-field:accepted", "%s %r (field %r is not a field of the model) translated without an error" % (
            "core" if core else "orm", text, case["field"]))
    return None


def check_identity(case):
    """Two different functions applied to the same arguments must not translate identically."""
    t1, t2 = from_json(case["term"]), from_json(case["term2"])
    for backend in case.get("backends", BACKENDS):
        r1, r2 = classify(backend, t1), classify(backend, t2)
        if r1[0] == "complete" and r2[0] == "complete" and r1[1] == r2[1] and not r1[1].startswith("<"):
            return ("%s:different-functions-translated-identically" % backend,
                    "%r and %r both -> %s" % (printer.render(t1), printer.render(t2), r1[1][:300]))
    return None


def list_chain(kind, d):
    """A list-typed argument under d list-returning calls whose other operands are a field (type
    unknown to inference) or a literal list."""
    sib = ident("nums") if kind.startswith("field") else LINT
    chain = LINT
    for i in range(d):
        chain = ("call", "substring", (), (chain, ("lit", "int", "1"))) if kind.endswith("substring") else \
            ("call", "concat", (), (chain, sib))
    return chain


def _shape(r):
    """What a backend did with a filter, up to nesting depth: refusal class, or the outermost SQL
    function applied (CARDINALITY vs CHAR_LENGTH, SLICE vs SUBSTR, LIKE vs none)."""
    if r[0] == "refused":
        return ("refused", r[1])
    if r[0] != "complete":
        return (r[0], r[1])
    sql = re.split(r"\sWHERE\s", r[1], maxsplit=1)[-1]
    m = re.search(r"\b([A-Za-z_][A-Za-z_0-9]*)\s*\(", sql)
    return ("complete", m.group(1).upper() if m else "", " LIKE " in sql.upper())


def check_depth(case):
    """Depth invariance: what a backend does with fn(<list-typed argument>) must not depend on how
    many list-returning calls the list sits under (refused the same way, or translated with the
    same outer SQL function)."""
    fn, kind, d, backend = case["fn"], case["sibling"], case["d"], case["backend"]

    def build(depth):
        ch = list_chain(kind, depth)
        if fn == "length":
            return ("cmp", "eq", ("call", "length", (), (ch,)), ("lit", "int", "2"))
        if fn == "indexof":
            return ("cmp", "eq", ("call", "indexof", (), (ch, LINT)), ("lit", "int", "2"))
        if fn == "substring":
            return ("cmp", "eq", ("call", "length", (), (("call", "substring", (), (ch, ("lit", "int", "1"))),)), ("lit", "int", "2"))
        return ("call", fn, (), (ch, ident("x1") if kind.startswith("field") else LINT))
    r1, rd = classify(backend, build(1)), classify(backend, build(d))
    case["_outcome"] = rd[0]
    if rd[0] == "VIOLATION":
        return ("%s:%s" % (backend, rd[1]), "%r on %s: %s" % (printer.render(build(d)), backend, rd[2]))
    if r1[0] in ("setup", "skipped") or rd[0] in ("setup", "skipped", "known"):
        return None
    if _shape(r1) != _shape(rd):
        return ("%s:list-argument-treated-differently-at-depth" % backend,
                "%r -> %r but at depth %d %r -> %r" % (printer.render(build(1)), _shape(r1), d, printer.render(build(d))[:200], _shape(rd)))
    return None


def depth_cells():
    for fn in ("length", "contains", "startswith", "endswith", "indexof", "substring", "hassubset"):
        for kind in ("field-concat", "literal-concat", "literal-substring"):
            for d in (2, 3, 4, 5, 6, 7, 9, 10, 17, 33):
                for b in BACKENDS:
                    if b == "roundtrip" or (kind.startswith("field") and b not in ("standard", "sqlite", "athena")):
                        continue        # the ORM models have no list-typed column to stand next to the list
                    yield {"mode": "depth", "fn": fn, "sibling": kind, "d": d, "backend": b}


def replay(case):
    return check_case(dict(case))


def all_cells():
    for cname, term, ty in constructs():
        for pname, pred in placements(term, ty):
            for b in BACKENDS:
                yield {"construct": cname, "position": pname, "backend": b, "term": to_json(pred)}


# names that are fields of an *enclosing* model but not of the lambda's child model (Part / Tag)
OUTER_ONLY = ["i1", "s1", "owner", "k", "parts"]


def outer_field_cells():
    for name in OUTER_ONLY:
        for coll in ("parts", "tags"):
            pred = ("lambda", ident(coll), "any", "p", ("cmp", "eq", ("path", ident("p"), name), ("lit", "int", "1")))
            yield {"mode": "unknown-field", "field": name, "position": "lambda-body-outer-field", "term": to_json(pred)}
            pred = ("lambda", ident(coll), "all", "p", ("call", "contains", (), (("path", ident("p"), name), ("lit", "str", "x"))))
            yield {"mode": "unknown-field", "field": name, "position": "lambda-body-outer-field-fn", "term": to_json(pred)}


UNKNOWN = ["nosuch", "metadata", "registry", "__table__", "__tablename__", "__class__", "__init__", "__mapper__",
           "_sa_class_manager", "__doc__", "__dict__", "__module__", "Owner", "id2"]


def unknown_cells():
    for name in UNKNOWN:
        f = ident(name)
        for pname, pred in [("cmp-left", ("cmp", "eq", f, ("lit", "int", "1"))),
                            ("cmp-right", ("cmp", "eq", ("lit", "str", "item"), f)),
                            ("in-subject", ("cmp", "in", f, ("list", (("lit", "int", "1"), ("lit", "int", "2"))))),
                            ("fn-arg", ("call", "contains", (), (f, ("lit", "str", "x")))),
                            ("arith", ("cmp", "gt", ("bin", "add", f, ("lit", "int", "1")), ("lit", "int", "2"))),
                            ("null-test", ("cmp", "eq", f, ("lit", "null", ""))),
                            ("under-not", ("un", "not", ("cmp", "eq", f, ("lit", "int", "1")))),
                            ("path-attr", ("cmp", "eq", ("path", ident("owner"), name), ("lit", "int", "1"))),
                            ("path-mid-of-3", ("cmp", "eq", ("path", ("path", ident("owner"), name), "name"), ("lit", "str", "x"))),
                            ("path-last-of-3", ("cmp", "eq", ("path", ("path", ident("owner"), "org"), name), ("lit", "int", "1"))),
                            ("path-2nd-of-4", ("cmp", "eq", ("path", ("path", ("path", ident("owner"), name), "region"), "name"), ("lit", "str", "x"))),
                            ("path-3rd-of-4", ("cmp", "eq", ("path", ("path", ("path", ident("owner"), "org"), name), "name"), ("lit", "str", "x"))),
                            ("path-last-of-4", ("cmp", "eq", ("path", ("path", ("path", ident("owner"), "org"), "region"), name), ("lit", "int", "1"))),
                            ("lambda-owner-mid", ("lambda", ("path", ("path", ident("owner"), name), "items"), "any", "p",
                                                  ("cmp", "eq", ("path", ident("p"), "i1"), ("lit", "int", "1")))),
                            ("lambda-body-mid-of-3", ("lambda", ident("tags"), "any", "p",
                                                      ("cmp", "eq", ("path", ("path", ("path", ident("p"), "items"), name), "name"), ("lit", "str", "x")))),
                            ("lambda-body", ("lambda", ident("parts"), "any", "p", ("cmp", "eq", ("path", ident("p"), name), ("lit", "int", "1")))),
                            ("nested-lambda-body", ("lambda", ident("tags"), "any", "x", ("lambda", ("path", ident("x"), "items"), "all", "w",
                                                                                              ("cmp", "eq", ("path", ident("w"), name), ("lit", "int", "1")))))]:
            yield {"mode": "unknown-field", "field": name, "position": pname, "term": to_json(pred)}


def identity_cells():
    pairs = [(((), "length"), (("geo",), "length")), (((), "length"), (("my",), "length")),
             (((), "contains"), (("my",), "contains")), (((), "tolower"), (("x", "y"), "tolower")),
             (((), "year"), (("my",), "year")), (((), "round"), (("geo",), "round")),
             (((), "tolower"), ((), "toupper")), (((), "floor"), ((), "ceiling")), (((), "startswith"), ((), "endswith")),
             (((), "year"), ((), "month")), (((), "hour"), ((), "minute")), (((), "date"), ((), "time"))]
    args = {"length": (S1,), "contains": (S1, ("lit", "str", "x")), "tolower": (S1,), "toupper": (S1,), "year": (T1,),
            "month": (T1,), "round": (R1,), "floor": (R1,), "ceiling": (R1,), "startswith": (S1, ("lit", "str", "x")),
            "endswith": (S1, ("lit", "str", "x")), "hour": (T1,), "minute": (T1,), "date": (T1,), "time": (T1,)}
    rhs = {"length": ("lit", "int", "3"), "tolower": ("lit", "str", "q"), "toupper": ("lit", "str", "q"),
           "year": ("lit", "int", "2020"), "month": ("lit", "int", "2020"), "round": ("lit", "float", "1.5"),
           "floor": ("lit", "float", "1.5"), "ceiling": ("lit", "float", "1.5"), "hour": ("lit", "int", "3"),
           "minute": ("lit", "int", "3"), "date": D1, "time": ("lit", "time", "01:02:03")}
    for (ns1, n1), (ns2, n2) in pairs:
        a = args[n1]
        c1, c2 = ("call", n1, ns1, a), ("call", n2, ns2, a)
        if n1 in rhs:
            c1, c2 = ("cmp", "eq", c1, rhs[n1]), ("cmp", "eq", c2, rhs[n1])
        yield {"mode": "identity", "term": to_json(c1), "term2": to_json(c2),
               "pair": [".".join(ns1 + (n1,)), ".".join(ns2 + (n2,))]}


def plan(tier, seed, scale):
    K = 16
    tasks = [{"name": "matrix-%d" % i, "kind": "matrix", "i": i, "k": K} for i in range(K)]
    total = int((8000 if tier == "quick" else 200000) * scale)
    for i in range(K):
        tasks.append({"name": "rand-%d" % i, "kind": "rand", "n": max(total // K, 5), "shard": i,
                      "depth": 3 if tier == "quick" else 4})
    return tasks


F_ALL = gen_typed.Fragment("all", funcs=gen_typed.STRING_FUNCS + ["year", "month", "day", "hour", "minute", "second",
                                                                  "date", "time", "round", "floor", "ceiling", "matchesPattern"],
                           neg=True, bare_bool=True, null_left=True, dt_offsets="z", time_type=True)


def run_task(task, seed, acc):
    def one(case, key=None):
        r = check_case(case)
        oc = case.pop("_outcome", None)
        acc.case(key=key or digest(case), nontrivial=True,
                 sample={k: v for k, v in case.items() if k in ("construct", "position", "backend", "field", "pair", "mode")}
                 if "construct" in case or "mode" in case else {"filter": printer.render(from_json(case["term"])), "backend": case.get("backend")})
        if oc:
            acc.cls("outcome_" + oc)
            if "backend" in case:
                acc.cls("outcome_%s_%s" % (oc, case["backend"]))
        if r:
            acc.fail(r[0], case, r[1])

    if task["kind"] == "matrix":
        idx = 0
        for gen in (all_cells, unknown_cells, outer_field_cells, identity_cells, depth_cells):
            for case in gen():
                idx += 1
                if idx % task["k"] == task["i"]:
                    one(case)
        acc.extra["exhaustive"] = True
        return
    from .. import relational
    strat = st.tuples(st.one_of(gen_typed.pred(task["depth"], F_ALL), gen_typed.pred(task["depth"], F_ALL),
                                relational.rel_pred(2, relational.RelCfg())), st.sampled_from(BACKENDS))

    def fn(p):
        t, b = p
        one({"term": to_json(c09.uniquify_literals(t)), "backend": b})

    hyp_run(strat, fn, task["n"], seed * 1000 + task["shard"])
