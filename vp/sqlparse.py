"""Independent SQL expression parser (Pratt) with per-dialect precedence, for C09/C12.
No library imports.

Tree nodes:
  ("bin", OP, l, r)   OP in + - * / % || = != <> < <= > >= IS ISNOT LIKE NOTLIKE IN NOTIN AND OR
  ("un", OP, x)       OP in - + NOT
  ("paren", e)        explicit parentheses (kept, so that "bare" operands can be recognised)
  ("list", [e...])    parenthesised comma list
  ("call", NAME, [args])  incl. the keyword forms EXTRACT/CAST/POSITION/SUBSTRING (keywords become ("kw", W))
  ("case", operand|None, [(when, then)...], else|None)
  ("col", alias|None, name)  ("num", text)  ("str", text)  ("kw", WORD)
  ("typed", WORD, text)      DATE '...' / TIMESTAMP '...'
  ("interval", text, UNIT)
"""
from . import sqllex


class SqlSyntaxError(Exception):
    pass


PRED_OPS = {"=", "!=", "<>", "<", "<=", ">", ">=", "IS", "ISNOT", "LIKE", "NOTLIKE", "IN", "NOTIN"}

# binding powers: higher binds tighter
SQLITE = {"OR": 1, "AND": 2, "NOT": 3,
          "=": 4, "!=": 4, "<>": 4, "IS": 4, "ISNOT": 4, "IN": 4, "NOTIN": 4, "LIKE": 4, "NOTLIKE": 4,
          "<": 5, "<=": 5, ">": 5, ">=": 5,
          "+": 7, "-": 7, "*": 8, "/": 8, "%": 8, "||": 9, "UNARY": 10}
STANDARD = {"OR": 1, "AND": 2, "NOT": 3,
            "=": 4, "!=": 4, "<>": 4, "IS": 4, "ISNOT": 4, "IN": 4, "NOTIN": 4, "LIKE": 4, "NOTLIKE": 4,
            "<": 4, "<=": 4, ">": 4, ">=": 4,
            "||": 5, "+": 6, "-": 6, "*": 7, "/": 7, "%": 7, "UNARY": 8}
KEYWORD_VALUES = {"NULL", "TRUE", "FALSE", "CURRENT_TIMESTAMP", "CURRENT_DATE"}
UNITS = {"YEAR", "MONTH", "DAY", "HOUR", "MINUTE", "SECOND"}


class Parser:
    def __init__(self, tokens, dialect):
        self.toks = tokens
        self.i = 0
        self.dialect = dialect
        self.bp = SQLITE if dialect == "sqlite" else STANDARD
        self.strict_predicates = dialect != "sqlite"

    def peek(self, k=0):
        j = self.i + k
        return self.toks[j] if j < len(self.toks) else ("eof", "")

    def next(self):
        t = self.peek()
        self.i += 1
        return t

    def is_word(self, w, k=0):
        t = self.peek(k)
        return t[0] == "word" and t[1].upper() == w

    def expect_punct(self, p):
        t = self.next()
        if t != ("punct", p):
            raise SqlSyntaxError("expected %r, got %r" % (p, t))

    def expect_word(self, w):
        t = self.next()
        if not (t[0] == "word" and t[1].upper() == w):
            raise SqlSyntaxError("expected %s, got %r" % (w, t))

    def parse(self):
        e = self.expr(0)
        if self.peek()[0] != "eof":
            raise SqlSyntaxError("trailing tokens from %r" % (self.peek(),))
        return e

    # ---- infix ------------------------------------------------------------------------------
    def infix_op(self):
        """(OP, number of tokens) of the infix operator at the cursor, or None."""
        t = self.peek()
        if t[0] == "op":
            return (t[1], 1)
        if t[0] == "word":
            w = t[1].upper()
            if w in ("AND", "OR", "LIKE", "IN"):
                return (w, 1)
            if w == "IS":
                if self.is_word("NOT", 1):
                    return ("ISNOT", 2)
                return ("IS", 1)
            if w == "NOT":
                if self.is_word("LIKE", 1):
                    return ("NOTLIKE", 2)
                if self.is_word("IN", 1):
                    return ("NOTIN", 2)
        return None

    def expr(self, min_bp):
        left = self.prefix()
        while True:
            io = self.infix_op()
            if io is None:
                break
            op, ntok = io
            if op not in self.bp:
                raise SqlSyntaxError("unknown operator %r" % op)
            bp = self.bp[op]
            if bp < min_bp:
                break
            self.i += ntok
            if op in ("IN", "NOTIN"):
                if self.peek() != ("punct", "("):
                    raise SqlSyntaxError("IN without a parenthesised list")
                right = self.prefix()
                if right[0] == "paren":
                    right = ("list", [right[1]])
                if right[0] != "list":
                    raise SqlSyntaxError("IN without a list")
            else:
                right = self.expr(bp + 1)
            if op in ("LIKE", "NOTLIKE") and self.is_word("ESCAPE"):
                self.next()
                esc = self.next()
                if esc[0] != "str" or len(esc[1]) != 1:
                    raise SqlSyntaxError("ESCAPE needs a one-character string")
            if self.strict_predicates and op in PRED_OPS:
                for side in (left, right):
                    if side[0] == "bin" and side[1] in PRED_OPS:
                        raise SqlSyntaxError("predicate used as operand of %s without parentheses" % op)
                    if side[0] == "un" and side[1] == "NOT":
                        raise SqlSyntaxError("NOT used as operand of %s without parentheses" % op)
            if self.strict_predicates and op == "||":
                for side in (left, right):
                    if side[0] == "bin" and side[1] in ("+", "-", "*", "/", "%"):
                        raise SqlSyntaxError("arithmetic mixed with || without parentheses")
            if self.strict_predicates and op in ("+", "-", "*", "/", "%"):
                for side in (left, right):
                    if side[0] == "bin" and side[1] == "||":
                        raise SqlSyntaxError("|| mixed with arithmetic without parentheses")
            left = ("bin", op, left, right)
        return left

    # ---- prefix -----------------------------------------------------------------------------
    def prefix(self):
        t = self.next()
        k, v = t
        if k == "eof":
            raise SqlSyntaxError("unexpected end (empty operand)")
        if k == "op" and v in ("-", "+"):
            return ("un", v, self.expr(self.bp["UNARY"]))
        if k == "num":
            return ("num", v)
        if k == "str":
            return ("str", v)
        if k == "qid":
            if self.peek() == ("punct", ".") and self.peek(1)[0] == "qid":
                self.next()
                name = self.next()[1]
                return ("col", v, name)
            return ("col", None, v)
        if k == "punct" and v == "(":
            if self.peek() == ("punct", ")"):
                raise SqlSyntaxError("empty parentheses")
            items = [self.expr(0)]
            while self.peek() == ("punct", ","):
                self.next()
                items.append(self.expr(0))
            self.expect_punct(")")
            return ("paren", items[0]) if len(items) == 1 else ("list", items)
        if k == "word":
            w = v.upper()
            if w == "NOT":
                return ("un", "NOT", self.expr(self.bp["NOT"]))
            if w in KEYWORD_VALUES and self.peek() != ("punct", "("):
                return ("kw", w)
            if w in ("DATE", "TIMESTAMP", "TIME") and self.peek()[0] == "str":
                return ("typed", w, self.next()[1])
            if w == "INTERVAL" and self.peek()[0] == "str":
                s = self.next()[1]
                u = self.next()
                if u[0] != "word" or u[1].upper() not in UNITS:
                    raise SqlSyntaxError("INTERVAL without unit")
                return ("interval", s, u[1].upper())
            if w == "CASE":
                return self.case()
            if self.peek() == ("punct", "("):
                return self.call(w)
            raise SqlSyntaxError("bare word %r (placeholder text?)" % v)
        raise SqlSyntaxError("unexpected token %r" % (t,))

    def call(self, name):
        self.expect_punct("(")
        if name == "EXTRACT":
            part = self.next()
            if part[0] != "word":
                raise SqlSyntaxError("EXTRACT part")
            self.expect_word("FROM")
            x = self.expr(0)
            self.expect_punct(")")
            return ("call", "EXTRACT", [("kw", part[1].upper()), x])
        if name == "CAST":
            x = self.expr(0)
            self.expect_word("AS")
            ty = self.next()
            if ty[0] != "word":
                raise SqlSyntaxError("CAST type")
            self.expect_punct(")")
            return ("call", "CAST", [x, ("kw", ty[1].upper())])
        if name == "POSITION":
            x = self.expr(self.bp["IN"] + 1)
            self.expect_word("IN")
            y = self.expr(0)
            self.expect_punct(")")
            return ("call", "POSITION", [x, y])
        if name == "SUBSTRING" and not self._comma_style():
            x = self.expr(0)
            self.expect_word("FROM")
            y = self.expr(0)
            args = [x, y]
            if self.is_word("FOR"):
                self.next()
                args.append(self.expr(0))
            self.expect_punct(")")
            return ("call", "SUBSTRING", args)
        args = []
        if self.peek() != ("punct", ")"):
            args.append(self.expr(0))
            while self.peek() == ("punct", ","):
                self.next()
                args.append(self.expr(0))
        self.expect_punct(")")
        return ("call", name, args)

    def _comma_style(self):
        """Is this SUBSTRING(...) written with commas (depth-0 comma before the closing paren)?"""
        depth = 0
        j = self.i
        while j < len(self.toks):
            t = self.toks[j]
            if t == ("punct", "("):
                depth += 1
            elif t == ("punct", ")"):
                if depth == 0:
                    return False
                depth -= 1
            elif t == ("punct", ",") and depth == 0:
                return True
            elif t[0] == "word" and t[1].upper() == "FROM" and depth == 0:
                return False
            j += 1
        return False

    def case(self):
        operand = None
        if not self.is_word("WHEN"):
            operand = self.expr(0)
        whens = []
        while self.is_word("WHEN"):
            self.next()
            cond = self.expr(0)
            self.expect_word("THEN")
            res = self.expr(0)
            whens.append((cond, res))
        if not whens:
            raise SqlSyntaxError("CASE without WHEN")
        els = None
        if self.is_word("ELSE"):
            self.next()
            els = self.expr(0)
        self.expect_word("END")
        return ("case", operand, whens, els)


def parse(sql, dialect):
    toks = sqllex.lex(sql)
    for k, v in toks:
        if k in ("err", "comment", "semi"):
            raise SqlSyntaxError("%s token %r" % (k, v[:30]))
    return Parser(toks, dialect).parse()


def strip(e):
    while e[0] == "paren":
        e = e[1]
    return e


def subnodes(e):
    """All nodes of the tree (pre-order), parentheses included."""
    out = [e]
    k = e[0]
    if k == "bin":
        out += subnodes(e[2]) + subnodes(e[3])
    elif k == "un":
        out += subnodes(e[2])
    elif k == "paren":
        out += subnodes(e[1])
    elif k == "list":
        for x in e[1]:
            out += subnodes(x)
    elif k == "call":
        for x in e[2]:
            out += subnodes(x)
    elif k == "case":
        if e[1] is not None:
            out += subnodes(e[1])
        for c, r in e[2]:
            out += subnodes(c) + subnodes(r)
        if e[3] is not None:
            out += subnodes(e[3])
    return out
