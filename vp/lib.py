"""Thin access layer to the library under test (public API only)."""
import traceback


def parse(text):
    """Parse with a fresh lexer and parser (how the shorthands do it)."""
    from odata_query.grammar import ODataLexer, ODataParser
    return ODataParser().parse(ODataLexer().tokenize(text))


_shared = None


def parse_shared(text):
    """Parse with a process-wide lexer/parser pair (fast path for bulk checks whose
    property is not about instance reuse; C20 checks that this is equivalent)."""
    global _shared
    from odata_query.grammar import ODataLexer, ODataParser
    if _shared is None:
        _shared = (ODataLexer(), ODataParser())
    lx, ps = _shared
    try:
        return ps.parse(lx.tokenize(text))
    except BaseException:
        _shared = None  # never reuse instances after an exception in bulk mode
        raise


def innermost_frame(exc, pkg="odata_query"):
    """'file.py:function' of the innermost traceback frame inside the library."""
    tb = traceback.extract_tb(exc.__traceback__)
    best = None
    for fr in tb:
        if ("/" + pkg + "/") in fr.filename.replace("\\", "/"):
            best = fr
    if best is None:
        if tb:
            fr = tb[-1]
            return "%s:%s" % (fr.filename.rsplit("/", 1)[-1], fr.name)
        return "?"
    return "%s:%s" % (best.filename.rsplit("/", 1)[-1], best.name)


def is_library_exc(exc):
    from odata_query import exceptions
    return isinstance(exc, exceptions.ODataException)


def exc_bucket(exc):
    return "%s@%s" % (type(exc).__name__, innermost_frame(exc))
