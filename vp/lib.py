"""Thin access layer to the library under test (public API only)."""
import traceback


import os

# Where the trees handed to the code under test come from (environment variant, see runner.ENV_VARIANTS):
#   ""               freshly parsed in this process
#   "foreign-pickle" parsed, hashed and pickled in another interpreter with another string-hash seed
#   "hashcons"       built by hand through the dataclass constructors, equal sub-trees being one shared
#                    object, literals derived with dataclasses.replace from a template whose value was read
PROVENANCE = os.environ.get("VERIF_AST_PROVENANCE", "")


def parse(text):
    """Parse with a fresh lexer and parser (how the shorthands do it)."""
    from odata_query.grammar import ODataLexer, ODataParser
    return with_provenance(ODataParser().parse(ODataLexer().tokenize(text)), text)


def with_provenance(a, text):
    """The tree for `text` as the current provenance variant supplies it (a: the tree parsed here)."""
    if PROVENANCE == "foreign-pickle":
        return _foreign(text)
    if PROVENANCE == "hashcons":
        return _hashcons(a, {})
    return a


def parse_plain(text):
    """Parse here and now with a fresh lexer and parser, whatever the provenance variant."""
    from odata_query.grammar import ODataLexer, ODataParser
    return ODataParser().parse(ODataLexer().tokenize(text))


_helper = None
_HELPER_SRC = r"""
import sys, json, pickle, base64, dataclasses
sys.path.insert(0, sys.argv[1])
from odata_query.grammar import ODataLexer, ODataParser
def touch(n):
    # what any earlier user of the tree may have done: hash it, compare it, read its value
    if isinstance(n, list):
        for x in n: touch(x)
        return
    if dataclasses.is_dataclass(n):
        for f in dataclasses.fields(n): touch(getattr(n, f.name))
        try: hash(n)
        except TypeError: pass
        try: n.py_val
        except Exception: pass
        n == n
for line in sys.stdin:
    text = json.loads(line)
    try:
        a = ODataParser().parse(ODataLexer().tokenize(text))
        touch(a)
        out = base64.b64encode(pickle.dumps(a)).decode()
    except Exception as e:
        out = "!" + type(e).__name__
    sys.stdout.write(out + "\n"); sys.stdout.flush()
"""


def _foreign(text):
    global _helper
    import base64
    import json
    import pickle
    import subprocess
    import sys
    from .runner import REPO
    if _helper is None or _helper.poll() is not None:
        env = dict(os.environ)
        env["PYTHONHASHSEED"] = "4242"
        env.pop("PYTHONPATH", None)
        _helper = subprocess.Popen([sys.executable, "-c", _HELPER_SRC, REPO], stdin=subprocess.PIPE, stdout=subprocess.PIPE,
                                   env=env, text=True, bufsize=1)
    _helper.stdin.write(json.dumps(text) + "\n")
    _helper.stdin.flush()
    line = _helper.stdout.readline().strip()
    if not line or line.startswith("!"):
        raise RuntimeError("helper interpreter could not parse %r: %s" % (text, line))
    return pickle.loads(base64.b64decode(line))


_TEMPLATES = {"Integer": "7", "Float": "7.5", "String": "tmpl", "Boolean": "true", "Date": "2001-02-03", "Time": "04:05:06",
              "DateTime": "2001-02-03T04:05:06", "Duration": "P9D", "GUID": "11111111-2222-3333-4444-555555555555",
              "Geography": "POINT(9 9)"}


def _hashcons(n, table):
    import dataclasses
    if isinstance(n, list):
        return [_hashcons(x, table) for x in n]
    if not dataclasses.is_dataclass(n):
        return n
    kw = {f.name: _hashcons(getattr(n, f.name), table) for f in dataclasses.fields(n) if f.init}
    tmpl = _TEMPLATES.get(type(n).__name__)
    if tmpl is not None and isinstance(kw.get("val"), str):
        t = type(n)(tmpl)
        try:
            t.py_val
        except Exception:
            pass
        new = dataclasses.replace(t, val=kw["val"])
    else:
        new = type(n)(**kw)
    return table.setdefault(repr(new), new)


_shared = None


def parse_shared(text):
    """Parse with a process-wide lexer/parser pair (fast path for bulk checks whose
    property is not about instance reuse; C20 checks that this is equivalent)."""
    global _shared
    from odata_query.grammar import ODataLexer, ODataParser
    if _shared is None:
        _shared = (ODataLexer(), ODataParser())
    lx, ps = _shared
    try:
        return ps.parse(lx.tokenize(text))
    except BaseException:
        _shared = None  # never reuse instances after an exception in bulk mode
        raise


def innermost_frame(exc, pkg="odata_query"):
    """'file.py:function' of the innermost traceback frame inside the library."""
    tb = traceback.extract_tb(exc.__traceback__)
    best = None
    for fr in tb:
        if ("/" + pkg + "/") in fr.filename.replace("\\", "/"):
            best = fr
    if best is None:
        if tb:
            fr = tb[-1]
            return "%s:%s" % (fr.filename.rsplit("/", 1)[-1], fr.name)
        return "?"
    return "%s:%s" % (best.filename.rsplit("/", 1)[-1], best.name)


def is_library_exc(exc):
    from odata_query import exceptions
    return isinstance(exc, exceptions.ODataException)


def exc_bucket(exc):
    return "%s@%s" % (type(exc).__name__, innermost_frame(exc))


ENGINE_LIMITS = ("parser stack overflow", "expression tree is too large", "too many sql variables",
                 "too many terms in compound select", "like or glob pattern too complex", "string or blob too big")


def engine_limit(exc):
    """Is exc a refusal by the *engine* (or by an ORM's own recursive compiler) because a statement is too
    deep or too large for it? That is a limit of the engine, reached or not depending on how many
    parentheses a translation happens to emit - not a verdict on the translation."""
    msg = str(exc).lower()
    if any(m in msg for m in ENGINE_LIMITS):
        return True
    if isinstance(exc, RecursionError):
        tb = traceback.extract_tb(exc.__traceback__)
        inner = tb[-1].filename.replace("\\", "/") if tb else ""
        return "/odata_query/" not in inner
    return False
