"""Relational grammar (paths, any/all lambdas), database instances and the object-graph
reference evaluator for C04/C15 (DESIGN §5/§6). No library imports."""
from hypothesis import strategies as st

from . import evalref
from .terms import ident

# model -> relationship -> (cardinality, target model)
REL = {
    "Item": {"owner": ("one", "Owner"), "home": ("one", "Region"), "parts": ("many", "Part"), "tags": ("many", "Tag")},
    "Owner": {"org": ("one", "Org"), "region": ("one", "Region"), "home": ("one", "Org"), "items": ("many", "Item")},
    "Org": {"region": ("one", "Region"), "owners": ("many", "Owner")},
    "Tag": {"items": ("many", "Item")},
    "Part": {"item": ("one", "Item")},
    "Region": {"orgs": ("many", "Org"), "country": ("one", "Country")},
    "Country": {"regions": ("many", "Region")},
}
# nullable scalar columns reachable through to-one paths, and non-null columns usable in lambda bodies
COLS = {
    "Item": {"i1": "Int", "i2": "Int", "s1": "Str", "k": "Int"},
    "Owner": {"name": "Str", "age": "Int", "rank": "Int"},
    "Org": {"name": "Str", "size": "Int"},
    "Region": {"name": "Str"},
    "Country": {"name": "Str"},
    "Part": {"n": "Int", "label": "Str"},
    "Tag": {"label": "Str", "n": "Int"},
}
NONNULL = {"Item": ["k"], "Owner": ["rank"], "Part": ["n", "label"], "Tag": ["label", "n"], "Org": [], "Region": [], "Country": ["name"]}
TABLE_KEY = {"Item": "items", "Owner": "owners", "Org": "orgs", "Region": "regions", "Part": "parts", "Tag": "tags", "Country": "countries"}

NAMES = ["a", "b", "ab", "A", "", "x y"]
SMALL = [0, 1, 2, 3, -1]


# ---- instances ----------------------------------------------------------------------------------

def opt(s, p=3):
    """None with probability ~ 1/p... (foreign keys NULL with probability about 0.3)."""
    return st.one_of(*([st.none()] + [s] * (p - 1)))


@st.composite
def instances(draw):
    n_reg = draw(st.integers(0, 2))
    n_org = draw(st.integers(0, 2))
    n_own = draw(st.integers(0, 3))
    n_tag = draw(st.integers(0, 3))
    n_item = draw(st.integers(1, 4))
    n_cty = draw(st.integers(1, 2))
    countries = [{"id": i + 1, "name": draw(st.sampled_from(NAMES))} for i in range(n_cty)]
    regions = [{"id": i + 1, "name": draw(opt(st.sampled_from(NAMES), 4)), "country": draw(st.integers(1, n_cty))}
               for i in range(n_reg)]
    orgs = [{"id": i + 1, "name": draw(opt(st.sampled_from(NAMES), 4)), "size": draw(opt(st.sampled_from(SMALL), 4)),
             "region": draw(opt(st.integers(1, n_reg))) if n_reg else None} for i in range(n_org)]
    owners = [{"id": i + 1, "name": draw(opt(st.sampled_from(NAMES), 4)), "age": draw(opt(st.sampled_from(SMALL), 4)),
               "rank": draw(st.sampled_from(SMALL)),
               "org": draw(opt(st.integers(1, n_org))) if n_org else None,
               "region": draw(opt(st.integers(1, n_reg))) if n_reg else None,
               "home": draw(opt(st.integers(1, n_org))) if n_org else None} for i in range(n_own)]
    tags = [{"id": i + 1, "label": draw(st.sampled_from(NAMES)), "n": draw(st.sampled_from(SMALL))} for i in range(n_tag)]
    items = []
    parts = []
    pid = 1
    for i in range(n_item):
        items.append({
            "id": i + 1, "i1": draw(opt(st.sampled_from(SMALL), 4)), "i2": draw(opt(st.sampled_from(SMALL), 4)),
            "s1": draw(opt(st.sampled_from(NAMES), 4)), "k": draw(st.sampled_from(SMALL)),
            "owner": draw(opt(st.integers(1, n_own))) if n_own else None,
            "home": draw(opt(st.integers(1, n_reg))) if n_reg else None,
            "co_owner": draw(opt(st.integers(1, n_cty))),
            "tags": sorted(set(draw(st.lists(st.integers(1, n_tag), max_size=3)))) if n_tag else [],
        })
        for _ in range(draw(st.integers(0, 3))):
            parts.append({"id": pid, "item": i + 1, "n": draw(st.sampled_from(SMALL)),
                          "label": draw(st.sampled_from(NAMES))})
            pid += 1
    return {"countries": countries, "regions": regions, "orgs": orgs, "owners": owners, "tags": tags, "items": items,
            "parts": parts}


class Graph:
    def __init__(self, inst):
        self.inst = inst
        self.by = {m: {o["id"]: o for o in inst.get(k, [])} for m, k in TABLE_KEY.items()}
        if not self.by["Country"]:
            self.by["Country"] = {1: {"id": 1, "name": "c1"}}   # instances recorded before Country existed
        self.default_country = sorted(self.by["Country"])[0]

    def one(self, model, obj, rel):
        """Related object of a to-one relationship, or None."""
        tgt = REL[model][rel][1]
        if model == "Part" and rel == "item":
            fk = obj.get("item")
        elif model == "Region" and rel == "country":
            fk = obj.get("country", self.default_country)
        else:
            fk = obj.get(rel)
        return self.by[tgt].get(fk) if fk is not None else None

    def many(self, model, obj, rel):
        tgt = REL[model][rel][1]
        if (model, rel) == ("Item", "parts"):
            return [p for p in self.inst["parts"] if p["item"] == obj["id"]]
        if (model, rel) == ("Item", "tags"):
            return [self.by["Tag"][t] for t in obj.get("tags", [])]
        if (model, rel) == ("Owner", "items"):
            return [i for i in self.inst["items"] if i.get("owner") == obj["id"]]
        if (model, rel) == ("Org", "owners"):
            return [o for o in self.inst["owners"] if o.get("org") == obj["id"]]
        if (model, rel) == ("Tag", "items"):
            return [i for i in self.inst["items"] if obj["id"] in i.get("tags", [])]
        if (model, rel) == ("Region", "orgs"):
            return [o for o in self.inst["orgs"] if o.get("region") == obj["id"]]
        if (model, rel) == ("Country", "regions"):
            return [r for r in self.inst["regions"] if r.get("country", self.default_country) == obj["id"]]
        raise KeyError((model, rel))


# ---- evaluation over the object graph --------------------------------------------------------

def segments(t):
    segs = []
    while t[0] == "path":
        segs.append(t[2])
        t = t[1]
    segs.append(t[1])
    return list(reversed(segs))


def make_resolver(graph, model, obj, env, mode, notes):
    """resolve(term) for evalref.ev: identifiers, paths and lambdas relative to `obj`."""

    def start(segs):
        if segs[0] in env:
            m, o = env[segs[0]]
            return m, o, segs[1:]
        return model, obj, segs

    def walk_to(segs):
        """Follow to-one relationships; returns (model, obj or None, remaining segs)."""
        m, o, rest = start(segs)
        while rest and o is not None and rest[0] in REL.get(m, {}) and REL[m][rest[0]][0] == "one" and len(rest) > 1:
            o2 = graph.one(m, o, rest[0])
            m = REL[m][rest[0]][1]
            o = o2
            rest = rest[1:]
        return m, o, rest

    def resolve(t):
        if t[0] in ("id", "path"):
            segs = segments(t)
            m, o, rest = walk_to(segs)
            if o is None:
                return None          # a missing related row behaves as null
            if not rest:
                return evalref.U     # a bare lambda variable has no scalar value
            if len(rest) != 1:
                return evalref.U
            name = rest[0]
            if name in COLS.get(m, {}) or name == "id":
                return o.get(name)
            if name in REL.get(m, {}) and REL[m][name][0] == "one":
                rel = graph.one(m, o, name)   # a to-one relationship compared to a scalar: its key
                return rel["id"] if rel is not None else None
            return evalref.U
        if t[0] == "lambda":
            segs = segments(t[1])
            m, o, rest = start(segs)
            # navigate to-one prefixes, then the collection
            while len(rest) > 1:
                if o is None:
                    break
                if rest[0] not in REL.get(m, {}) or REL[m][rest[0]][0] != "one":
                    return evalref.U
                o2 = graph.one(m, o, rest[0])
                m = REL[m][rest[0]][1]
                o = o2
                rest = rest[1:]
            if o is None:
                children, cm = [], None
            else:
                if rest[0] not in REL.get(m, {}) or REL[m][rest[0]][0] != "many":
                    return evalref.U
                children = graph.many(m, o, rest[0])
                cm = REL[m][rest[0]][1]
            op, var, body = t[2], t[3], t[4]
            if body is None:
                return len(children) > 0
            vals = []
            for ch in children:
                env2 = dict(env)
                env2[var] = (cm, ch)
                c = evalref.Ctx(None, mode, notes, make_resolver(graph, cm, ch, env2, mode, notes))
                vals.append(evalref.ev(body, c))
            if any(v is evalref.U for v in vals):
                return evalref.U
            if any(v is None for v in vals):
                notes.add("null-in-lambda-body")
                return evalref.U
            return any(vals) if op == "any" else all(vals)
        return evalref.U

    return resolve


def verdict(t, graph, item, model="Item"):
    notes = set()
    res = {}
    for mode in ("odata", "sql"):
        c = evalref.Ctx(None, mode, notes, make_resolver(graph, model, item, {}, mode, notes))
        try:
            res[mode] = evalref.ev(t, c)
        except (TypeError, ValueError, KeyError):
            res[mode] = evalref.U
    if res["odata"] is evalref.U or res["sql"] is evalref.U:
        return (False, None, notes)
    so, ss = res["odata"] is True, res["sql"] is True
    if so != ss:
        return (False, None, notes)
    return (True, so, notes)


# ---- relational filter grammar ------------------------------------------------------------------

def path_of(segs):
    t = ident(segs[0])
    for s in segs[1:]:
        t = ("path", t, s)
    return t


ROOTS = {
    "Item": {"to_one": {("owner",): "Owner", ("owner", "org"): "Org", ("owner", "org", "region"): "Region",
                        ("owner", "region"): "Region", ("home",): "Region", ("owner", "home"): "Org",
                        ("home", "country"): "Country", ("owner", "region", "country"): "Country",
                        ("owner", "org", "region", "country"): "Country"},
             "colls": {("parts",): "Part", ("tags",): "Tag", ("owner", "items"): "Item",
                       ("owner", "org", "owners"): "Owner"},
             "scalars": ["i1", "i2", "s1", "k"]},
    "Owner": {"to_one": {("org",): "Org", ("org", "region"): "Region", ("region",): "Region", ("home",): "Org",
                         ("region", "country"): "Country", ("org", "region", "country"): "Country"},
              "colls": {("items",): "Item", ("org", "owners"): "Owner"},
              "scalars": ["name", "age", "rank"]},
    "Tag": {"to_one": {}, "colls": {("items",): "Item"}, "scalars": ["label", "n"]},
}
TO_ONE_PATHS = ROOTS["Item"]["to_one"]
COLLECTIONS = ROOTS["Item"]["colls"]
NESTED = {  # child model -> collections reachable from a lambda variable
    "Tag": {("items",): "Item"}, "Item": {("parts",): "Part", ("tags",): "Tag"},
    "Owner": {("items",): "Item"}, "Part": {},
}
BODY_TO_ONE = {  # child model -> to-one paths usable inside a lambda body (A5 territory on SQLAlchemy)
    "Part": {("item",): "Item"}, "Item": {("owner",): "Owner"}, "Owner": {("org",): "Org"}, "Tag": {},
}


def lit_for(ty):
    if ty == "Int":
        return st.sampled_from(SMALL).map(lambda v: ("lit", "int", str(v)))
    return st.sampled_from(NAMES).map(lambda v: ("lit", "str", v))


@st.composite
def scalar_cmp(draw, base_segs, model, cols=None):
    """A comparison on one column of `model`, reached through base_segs."""
    names = cols if cols is not None else sorted(COLS[model])
    col = draw(st.sampled_from(names))
    ty = COLS[model][col]
    left = path_of(list(base_segs) + [col]) if base_segs else ident(col)
    k = draw(st.integers(0, 9))
    if ty == "Str" and k < 3:
        fn = draw(st.sampled_from(["contains", "startswith", "endswith"]))
        return ("call", fn, (), (left, draw(st.sampled_from([("lit", "str", s) for s in ["a", "b", "", "ab"]]))))
    if ty == "Int" and k < 2:
        left = ("bin", draw(st.sampled_from(["add", "sub", "mul"])), left, draw(lit_for("Int")))
    if ty == "Str" and k == 3:
        left = ("call", draw(st.sampled_from(["tolower", "toupper"])), (), (left,))
    if ty == "Int" and k == 2:
        return ("cmp", "in", left, ("list", tuple(draw(st.lists(lit_for("Int"), min_size=1, max_size=3)))))
    op = draw(st.sampled_from(["eq", "ne", "lt", "le", "gt", "ge"] if ty == "Int" else ["eq", "ne", "eq", "lt", "ge"]))
    if draw(st.integers(0, 7)) == 0:
        return ("cmp", op, draw(lit_for(ty)), left)
    return ("cmp", op, left, draw(lit_for(ty)))


class RelCfg:
    def __init__(self, body_to_one=True, deep_owner=True):
        self.body_to_one = body_to_one
        self.deep_owner = deep_owner


@st.composite
def body(draw, var, model, depth, cfg):
    """Lambda body over the child's non-null columns (never NULL), optionally nested."""
    c = draw(st.integers(0, 9))
    if depth > 0 and c < 2 and NESTED.get(model):
        segs, cm = draw(st.sampled_from(sorted(NESTED[model].items())))
        return draw(lam([var] + list(segs), cm, depth - 1, cfg, inner_var="w" if var != "w" else "z"))
    if c == 2 and cfg.body_to_one and BODY_TO_ONE.get(model):
        segs, tm = draw(st.sampled_from(sorted(BODY_TO_ONE[model].items())))
        nn = NONNULL[tm]
        if nn:
            return draw(scalar_cmp([var] + list(segs), tm, nn))
    if depth > 0 and c in (3, 4):
        return ("bool", draw(st.sampled_from(["and", "or"])), draw(body(var, model, depth - 1, cfg)),
                draw(body(var, model, depth - 1, cfg)))
    if depth > 0 and c == 5:
        return ("un", "not", draw(body(var, model, depth - 1, cfg)))
    return draw(scalar_cmp([var], model, NONNULL[model]))


@st.composite
def lam(draw, owner_segs, child_model, depth, cfg, inner_var=None):
    var = inner_var or draw(st.sampled_from(["x", "v", "p"]))
    k = draw(st.integers(0, 9))
    owner = path_of(owner_segs)
    if k == 0:
        return ("lambda", owner, "any", None, None)
    op = "any" if k < 6 else "all"
    return ("lambda", owner, op, var, draw(body(var, child_model, depth, cfg)))


@st.composite
def rel_pred(draw, depth, cfg, root="Item"):
    R = ROOTS[root]
    TO_ONE_PATHS, COLLECTIONS = R["to_one"], R["colls"]   # noqa: N806 (shadow the Item defaults)
    c = draw(st.integers(0, 99))
    if not TO_ONE_PATHS and (27 <= c < 30 or 45 <= c < 65):
        c = 70        # this root has no to-one relationships: draw a collection predicate instead
    if depth > 0 and c < 22:
        return ("bool", draw(st.sampled_from(["and", "or"])), draw(rel_pred(depth - 1, cfg, root)),
                draw(rel_pred(depth - 1, cfg, root)))
    if depth > 0 and c < 27:
        return ("un", "not", draw(rel_pred(depth - 1, cfg, root)))
    if depth > 0 and c < 30:
        # a negated conjunction of a to-one path comparison and a plain comparison (no or / null / lambda
        # anywhere): true for a parent whose foreign key is NULL as soon as the plain conjunct is false
        segs, tm = draw(st.sampled_from(sorted(TO_ONE_PATHS.items())))
        a = draw(scalar_cmp(list(segs), tm))
        b = draw(scalar_cmp([], root, R["scalars"]))
        pair = (a, b) if draw(st.booleans()) else (b, a)
        return ("un", "not", ("bool", "and", pair[0], pair[1]))
    if c < 33 and len(TO_ONE_PATHS) >= 2:
        # two different to-one paths in one predicate (their hops may share a relationship name)
        (s1, m1), (s2, m2) = draw(st.lists(st.sampled_from(sorted(TO_ONE_PATHS.items())), min_size=2, max_size=2, unique=True))
        a, b = draw(scalar_cmp(list(s1), m1)), draw(scalar_cmp(list(s2), m2))
        return ("bool", draw(st.sampled_from(["and", "or"])), a, b)
    if c < 45:
        return draw(scalar_cmp([], root, R["scalars"]))
    if c < 65:
        segs, tm = draw(st.sampled_from(sorted(TO_ONE_PATHS.items())))
        k = draw(st.integers(0, 9))
        if k < 2:
            col = draw(st.sampled_from(sorted(COLS[tm])))
            if draw(st.integers(0, 2)) == 0:
                return ("cmp", draw(st.sampled_from(["eq", "ne"])), ("lit", "null", ""), path_of(list(segs) + [col]))
            return ("cmp", draw(st.sampled_from(["eq", "ne"])), path_of(list(segs) + [col]), ("lit", "null", ""))
        if k == 2:
            return ("cmp", draw(st.sampled_from(["eq", "ne"])), path_of(list(segs)), ("lit", "null", ""))
        return draw(scalar_cmp(list(segs), tm))
    colls = sorted(COLLECTIONS.items())
    if not cfg.deep_owner:
        colls = [c_ for c_ in colls if len(c_[0]) < 3]
    if depth > 0 and c >= (90 if root == "Owner" else 96):
        return draw(echo(root, colls))
    segs, cm = draw(st.sampled_from(colls))
    return draw(lam(list(segs), cm, min(depth, 2), cfg))


@st.composite
def echo(draw, root, colls):
    """Lambdas nested two or three deep whose collection names repeat across levels and models
    (Owner.items / Tag.items, Item.tags at two levels), next to a top-level lambda over the first
    collection again: whatever a backend remembers per relationship *name* is then wrong."""
    segs, cm = draw(st.sampled_from(colls))
    names = ["x", "w", "z", "u"]

    used = {}      # collection name -> model it was navigated from, at an enclosing level

    def nest(var_i, owner_segs, model, levels, src=root):
        var = names[var_i]
        used.setdefault(owner_segs[-1], src)
        leaf = draw(scalar_cmp([var], model, NONNULL[model]))
        op = draw(st.sampled_from(["any", "any", "all"]))
        if levels > 0 and NESTED.get(model):
            cands = sorted(NESTED[model].items())
            # prefer a collection whose name an enclosing level already used on another model
            echoing = [c_ for c_ in cands if used.get(c_[0][-1], model) != model]
            csegs, cmodel = draw(st.sampled_from(echoing if echoing and draw(st.integers(0, 3)) else cands))
            inner = nest(var_i + 1, [var] + list(csegs), cmodel, levels - 1, model)
            b = ("bool", draw(st.sampled_from(["and", "or"])), leaf, inner) if draw(st.booleans()) else inner
        else:
            b = leaf
        return ("lambda", path_of(owner_segs), op, var, b)

    first = nest(0, list(segs), cm, draw(st.sampled_from([1, 2, 2, 3, 3])))
    second = draw(lam(list(segs), cm, 0, RelCfg(body_to_one=False)))
    pair = (first, second) if draw(st.booleans()) else (second, first)
    return ("bool", draw(st.sampled_from(["and", "or"])), pair[0], pair[1])


def features(t):
    """Measured classes of a relational filter."""
    from .terms import walk
    out = set()
    for x in walk(t):
        if x[0] == "lambda":
            out.add("lambda_" + x[2] + ("_empty" if x[4] is None else ""))
            if x[4] is not None and any(y[0] == "lambda" for y in walk(x[4])):
                out.add("nested_lambda")
            if x[4] is not None:
                for y in walk(x[4]):
                    if y[0] == "path" and y[1][0] == "path":
                        out.add("to_one_inside_body")
        if x[0] == "path":
            out.add("path")
        if x[0] == "bool" and x[1] == "or" and any(y[0] in ("path", "lambda") for y in walk(x)):
            out.add("disjunction_with_navigation")
    return out


def to_one_hops(t, root="Item"):
    """{path prefix (tuple of segments): target model} for every to-one hop navigated outside lambda bodies."""
    hops = {}

    def add(segs):
        m = root
        for i, sname in enumerate(segs):
            r = REL.get(m, {}).get(sname)
            if not r or r[0] != "one":
                break
            m = r[1]
            hops[tuple(segs[:i + 1])] = m

    def go(x):
        if x[0] == "lambda":
            add(segments(x[1]))
            return
        if x[0] == "path":
            add(segments(x))
            return
        if x[0] == "id":
            add([x[1]])
            return
        from .terms import children
        for c in children(x):
            go(c)
    go(t)
    return hops


def same_model_twice(t, root="Item"):
    """Does the filter reach one entity type through two different to-one paths (known finding A8)?"""
    models = list(to_one_hops(t, root).values())
    return len(models) != len(set(models))
