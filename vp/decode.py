"""Library AST -> harness terms, structurally (class names + dataclass fields only)."""
import dataclasses

_LIT = {
    "Null": "null", "Integer": "int", "Float": "float", "Boolean": "bool",
    "String": "str", "Geography": "geo", "GUID": "guid", "Date": "date",
    "Time": "time", "DateTime": "datetime", "Duration": "duration",
}
_BIN = {"Add": "add", "Sub": "sub", "Mult": "mul", "Div": "div", "Mod": "mod"}
_CMP = {"Eq": "eq", "NotEq": "ne", "Lt": "lt", "LtE": "le", "Gt": "gt", "GtE": "ge",
        "In": "in"}
_BOOL = {"And": "and", "Or": "or"}
_UN = {"Not": "not", "USub": "neg"}
_COLL = {"Any": "any", "All": "all"}


class DecodeError(Exception):
    pass


def _fields(node):
    return {f.name: getattr(node, f.name) for f in dataclasses.fields(node)}


def decode(node):
    """Decode a library AST into a term. Raises DecodeError on anything that is not
    a well-formed tree of the documented node kinds."""
    name = type(node).__name__
    if not dataclasses.is_dataclass(node):
        raise DecodeError("not a node: %r" % (node,))
    f = _fields(node)
    if name == "Identifier":
        if not isinstance(f["name"], str) or not isinstance(f["namespace"], tuple):
            raise DecodeError("bad Identifier %r" % (node,))
        return ("id", f["name"], tuple(f["namespace"]))
    if name == "Attribute":
        if not isinstance(f["attr"], str):
            raise DecodeError("Attribute.attr is not a str: %r" % (f["attr"],))
        return ("path", decode(f["owner"]), f["attr"])
    if name in _LIT:
        if name == "Null":
            return ("lit", "null", "")
        if not isinstance(f["val"], str):
            raise DecodeError("literal val is not a str: %r" % (node,))
        return ("lit", _LIT[name], f["val"])
    if name == "List":
        if not isinstance(f["val"], list):
            raise DecodeError("List.val is not a list")
        return ("list", tuple(decode(x) for x in f["val"]))
    if name == "BinOp":
        return ("bin", _op(f["op"], _BIN), decode(f["left"]), decode(f["right"]))
    if name == "Compare":
        return ("cmp", _op(f["comparator"], _CMP), decode(f["left"]), decode(f["right"]))
    if name == "BoolOp":
        return ("bool", _op(f["op"], _BOOL), decode(f["left"]), decode(f["right"]))
    if name == "UnaryOp":
        return ("un", _op(f["op"], _UN), decode(f["operand"]))
    if name == "Call":
        fn = f["func"]
        if type(fn).__name__ != "Identifier":
            raise DecodeError("Call.func is not an Identifier: %r" % (fn,))
        if not isinstance(f["args"], list):
            raise DecodeError("Call.args is not a list")
        return ("call", fn.name, tuple(fn.namespace), tuple(decode(a) for a in f["args"]))
    if name == "NamedParam":
        nm = f["name"]
        if type(nm).__name__ != "Identifier":
            raise DecodeError("NamedParam.name is not an Identifier")
        if nm.namespace:
            return ("named", ".".join(tuple(nm.namespace) + (nm.name,)), decode(f["param"]))
        return ("named", nm.name, decode(f["param"]))
    if name == "CollectionLambda":
        op = _op(f["operator"], _COLL)
        lam = f["lambda_"]
        if lam is None:
            return ("lambda", decode(f["owner"]), op, None, None)
        if type(lam).__name__ != "Lambda":
            raise DecodeError("lambda_ is not a Lambda")
        var = lam.identifier
        if type(var).__name__ != "Identifier":
            raise DecodeError("Lambda.identifier is not an Identifier")
        return ("lambda", decode(f["owner"]), op, ".".join(tuple(var.namespace) + (var.name,)),
                decode(lam.expression))
    raise DecodeError("unexpected node kind %s" % name)


def _op(node, table):
    n = type(node).__name__
    if n not in table:
        raise DecodeError("unexpected operator node %s" % n)
    return table[n]


def ast_digest(node):
    """Iterative structural hash of an arbitrarily deep library AST (repr/== of a
    10 000-deep dataclass tree would overflow the *harness's* stack).
    Returns (hexdigest, node_count, ok) where ok is False if something that is
    neither a node, a str, a tuple of str, None nor a list of nodes was found."""
    import hashlib
    h = hashlib.blake2b(digest_size=12)
    stack = [node]
    count = 0
    ok = True
    while stack:
        x = stack.pop()
        if dataclasses.is_dataclass(x) and not isinstance(x, type):
            count += 1
            h.update(b"N" + type(x).__name__.encode())
            vals = [getattr(x, f.name) for f in dataclasses.fields(x)]
            h.update(b"%d" % len(vals))
            stack.extend(reversed(vals))
        elif isinstance(x, str):
            h.update(b"S" + x.encode("utf-8", "surrogatepass") + b"\0")
        elif x is None:
            h.update(b"0")
        elif isinstance(x, (list, tuple)):
            h.update(b"L%d" % len(x))
            stack.extend(reversed(list(x)))
        else:
            ok = False
            h.update(b"?" + repr(type(x)).encode())
    return h.hexdigest(), count, ok
