"""Reference evaluator: OData value semantics over rows (DESIGN §4), written from the OData
specification; independent of the library.

Values: int, float, str, bool, datetime (naive UTC), date, time; NULL is None; UNDECIDED is U.
Two readings are evaluated: "odata" (strict OData 4.01 null handling: null eq null is true,
null eq 5 is false, lt/gt with null are false) and "sql" (SQL-style propagation: any comparison
with NULL is NULL). A row is *decided* only if neither reading is UNDECIDED and both agree on
whether the row is selected (filter value TRUE).
"""
import datetime as dt
import re

from .gen_lex import value_of


class _U:
    def __repr__(self):
        return "UNDECIDED"


U = _U()
BIG = 2 ** 50


class Ctx:
    def __init__(self, row, mode, notes=None, resolve=None, fences=()):
        self.fences = fences      # ids of open known findings whose input class is skipped
        self.row = row
        self.mode = mode          # "odata" | "sql"
        self.notes = notes if notes is not None else set()
        self.resolve = resolve    # optional callable(term) -> value for paths (C04)


def lit_value(t):
    kind, text = t[1], t[2]
    if kind == "null":
        return None
    if kind == "datetime":
        v = value_of("datetime", text)
        if v.tzinfo is not None:
            v = v.astimezone(dt.timezone.utc).replace(tzinfo=None)
        return v
    if kind in ("int", "float", "bool", "str", "date", "time"):
        return value_of(kind, text)
    return U


def _num(v):
    return isinstance(v, (int, float)) and not isinstance(v, bool)


def _check_big(v):
    if _num(v) and abs(v) > BIG:
        return U
    return v


def ev(t, c):
    """Value of a scalar or predicate term under reading c.mode."""
    k = t[0]
    if k == "lit":
        return lit_value(t)
    if k == "id":
        if c.resolve is not None:
            return c.resolve(t)
        return c.row[t[1]]
    if k == "path":
        if c.resolve is None:
            return U
        return c.resolve(t)
    if k == "un":
        x = ev(t[2], c)
        if t[1] == "not":
            if x is U:
                return U
            if x is None:
                return None
            return not x
        if x is U or x is None:
            return x
        return -x
    if k == "bin":
        return _arith(t[1], ev(t[2], c), ev(t[3], c), c)
    if k == "bool":
        a = ev(t[2], c)
        b = ev(t[3], c)
        return _kleene(t[1], a, b)
    if k == "cmp":
        if t[1] == "in":
            return _in(t, c)
        return _compare(t[1], t[2], t[3], c)
    if k == "call":
        return _call(t, c)
    if k == "lambda":
        if c.resolve is None:
            return U
        return c.resolve(t)
    return U


def _kleene(op, a, b):
    if op == "and":
        if a is False or b is False:
            return False
        if a is U or b is U:
            return U
        if a is None or b is None:
            return None
        return True
    if a is True or b is True:
        return True
    if a is U or b is U:
        return U
    if a is None or b is None:
        return None
    return False


def _arith(op, a, b, c):
    if a is U or b is U:
        return U
    if a is None or b is None:
        return None
    if not (_num(a) and _num(b)):
        return U
    if op == "add":
        return _check_big(a + b)
    if op == "sub":
        return _check_big(a - b)
    if op == "mul":
        return _check_big(a * b)
    if op == "div":
        if b == 0:
            c.notes.add("div-by-zero")
            return U
        if isinstance(a, int) and isinstance(b, int):
            if a % b != 0:
                if "int-div-truncates" in c.fences:
                    # OData: integer division; engines that implement it (SQLite's `/` on
                    # integers) truncate toward zero
                    q = abs(a) // abs(b)
                    return q if (a >= 0) == (b >= 0) else -q
                c.notes.add("inexact-int-div")
                return U
            return a // b
        return _check_big(a / b)
    if op == "mod":
        if not (isinstance(a, int) and isinstance(b, int)) or b == 0:
            c.notes.add("mod-by-zero")
            return U
        # remainder with the sign of the dividend (OData / SQL / C semantics)
        r = abs(a) % abs(b)
        return r if a >= 0 else -r
    return U


def _same_family(a, b):
    if _num(a) and _num(b):
        return True
    if isinstance(a, bool) or isinstance(b, bool):
        return isinstance(a, bool) and isinstance(b, bool)
    if isinstance(a, dt.datetime) or isinstance(b, dt.datetime):
        return isinstance(a, dt.datetime) and isinstance(b, dt.datetime)
    return type(a) is type(b)


def _compare(op, lt, rt, c):
    lnull = lt == ("lit", "null", "")
    rnull = rt == ("lit", "null", "")
    a = ev(lt, c)
    b = ev(rt, c)
    if a is U or b is U:
        return U
    if lnull or rnull:
        # null test with the null literal on either side: two-valued in every reading
        other = a if rnull else b
        if lnull and rnull:
            return U
        if op == "eq":
            return other is None
        if op == "ne":
            return other is not None
        return U
    if a is None or b is None:
        if c.mode == "sql":
            return None
        # strict OData 4.01
        if op == "eq":
            return a is None and b is None
        if op == "ne":
            return not (a is None and b is None)
        if op in ("le", "ge") and a is None and b is None:
            return U   # 4.0 says false, 4.01 says true
        return False
    if not _same_family(a, b):
        return U
    if op == "eq":
        return a == b
    if op == "ne":
        return a != b
    if isinstance(a, bool):
        return U
    if op == "lt":
        return a < b
    if op == "le":
        return a <= b
    if op == "gt":
        return a > b
    if op == "ge":
        return a >= b
    return U


def _in(t, c):
    a = ev(t[2], c)
    if a is U:
        return U
    vals = [ev(e, c) for e in t[3][1]]
    if any(v is U for v in vals):
        return U
    if c.mode == "sql":
        if a is None:
            return None
        hit = any(v is not None and _same_family(a, v) and a == v for v in vals)
        if hit:
            return True
        if any(v is None for v in vals):
            return None
        return False
    if a is None:
        return any(v is None for v in vals)
    return any(v is not None and _same_family(a, v) and a == v for v in vals)


def _lower_ascii(s):
    return "".join(ch.lower() if "A" <= ch <= "Z" else ch for ch in s)


def _upper_ascii(s):
    return "".join(ch.upper() if "a" <= ch <= "z" else ch for ch in s)


def round_half_away(x):
    import math
    return float(math.floor(abs(x) + 0.5)) * (1.0 if x >= 0 else -1.0)


def _call(t, c):
    import math
    name = t[1]
    args = [ev(a, c) for a in t[3]]
    if any(a is U for a in args):
        return U
    if name == "concat":
        if any(a is None for a in args):
            c.notes.add("concat-null")
            return U
        if not all(isinstance(a, str) for a in args):
            return U
        return args[0] + args[1]
    if any(a is None for a in args):
        return None
    if name in ("contains", "startswith", "endswith", "indexof"):
        h, n = args
        if not (isinstance(h, str) and isinstance(n, str)):
            return U
        if name != "indexof" and t[3][1][0] != "lit" and ("%" in n or "_" in n):
            c.notes.add("like-nonliteral-needle-with-wildcard")
            if "S5b" in c.fences:
                c.notes.add("excluded-by-known-finding-S5b")
                return U
        if name != "indexof" and ("%" in n or "_" in n) and "A3" in c.fences:
            c.notes.add("excluded-by-known-finding-A3")
            return U
        if name == "contains":
            return n in h
        if name == "startswith":
            return h.startswith(n)
        if name == "endswith":
            return h.endswith(n)
        return h.find(n)
    if name == "length":
        return len(args[0]) if isinstance(args[0], str) else U
    if name == "tolower":
        return _lower_ascii(args[0]) if isinstance(args[0], str) else U
    if name == "toupper":
        return _upper_ascii(args[0]) if isinstance(args[0], str) else U
    if name == "trim":
        return args[0].strip(" ") if isinstance(args[0], str) else U
    if name == "substring":
        s, i = args[0], args[1]
        if not isinstance(s, str) or not isinstance(i, int) or isinstance(i, bool):
            return U
        if i < 0 or i > len(s):
            c.notes.add("substring-index-out-of-range")
            return U
        if len(args) == 3:
            n = args[2]
            if not isinstance(n, int) or isinstance(n, bool) or n < 0:
                c.notes.add("substring-negative-length")
                return U
            if n >= 2 ** 31 - 2:
                # engines read SUBSTR's length as a 32-bit integer (SQLite wraps 2**31 to a negative
                # length): not the library's doing, so the row is left undecided
                c.notes.add("substring-length-beyond-32-bit")
                return U
            return s[i:i + n]
        return s[i:]
    if name == "matchesPattern":
        try:
            return re.search(args[1], args[0]) is not None
        except re.error:
            return U
    if name in ("year", "month", "day"):
        v = args[0]
        if isinstance(v, (dt.datetime, dt.date)):
            return getattr(v, name)
        return U
    if name in ("hour", "minute", "second"):
        v = args[0]
        if isinstance(v, (dt.datetime, dt.time)):
            return getattr(v, name)
        return U
    if name == "date":
        return args[0].date() if isinstance(args[0], dt.datetime) else U
    if name == "time":
        return args[0].time() if isinstance(args[0], dt.datetime) else U
    if name == "round":
        return round_half_away(args[0]) if _num(args[0]) else U
    if name == "floor":
        return float(math.floor(args[0])) if _num(args[0]) else U
    if name == "ceiling":
        return float(math.ceil(args[0])) if _num(args[0]) else U
    return U


def verdict(t, row, resolve_factory=None, fences=()):
    """(decided, selected, notes): selected is meaningful only when decided."""
    notes = set()
    res = {}
    for mode in ("odata", "sql"):
        c = Ctx(row, mode, notes, resolve_factory(mode) if resolve_factory else None, fences)
        try:
            res[mode] = ev(t, c)
        except (OverflowError, ValueError, TypeError, ZeroDivisionError):
            res[mode] = U
    if res["odata"] is U or res["sql"] is U:
        return (False, None, notes)
    so = res["odata"] is True
    ss = res["sql"] is True
    if so != ss:
        notes.add("odata-vs-sql-null-semantics")
        return (False, None, notes)
    return (True, so, notes)


def row_from_storage(row):
    """Rows are generated in storage form (datetimes/dates as ISO text); convert for evaluation."""
    out = dict(row)
    if out.get("t1") is not None:
        out["t1"] = dt.datetime.fromisoformat(out["t1"])
    if out.get("d1") is not None:
        out["d1"] = dt.date.fromisoformat(out["d1"])
    return out
