"""Django models of the harness schema (scalar table `item` + relational schema, DESIGN §5)."""
from django.db import models


class Country(models.Model):
    name = models.CharField(max_length=50)

    class Meta:
        app_label = "djapp"


class Region(models.Model):
    name = models.CharField(max_length=50, null=True)
    # the one to-one relationship over a NOT NULL foreign key (every region has a country)
    country = models.ForeignKey(Country, on_delete=models.CASCADE, related_name="regions")

    class Meta:
        app_label = "djapp"


class Org(models.Model):
    name = models.CharField(max_length=50, null=True)
    size = models.IntegerField(null=True)
    region = models.ForeignKey(Region, null=True, on_delete=models.SET_NULL, related_name="orgs")

    class Meta:
        app_label = "djapp"


class Owner(models.Model):
    name = models.CharField(max_length=50, null=True)
    age = models.IntegerField(null=True)
    rank = models.IntegerField(default=0)
    org = models.ForeignKey(Org, null=True, on_delete=models.SET_NULL, related_name="owners")
    region = models.ForeignKey(Region, null=True, on_delete=models.SET_NULL, related_name="direct_owners")
    home = models.ForeignKey(Org, null=True, on_delete=models.SET_NULL, related_name="residents")

    class Meta:
        app_label = "djapp"


class Tag(models.Model):
    label = models.CharField(max_length=50)
    n = models.IntegerField()

    class Meta:
        app_label = "djapp"


class PositiveManager(models.Manager):
    """A restricting and ordering custom manager (C15: a Manager passed as the base query)."""

    def get_queryset(self):
        return super().get_queryset().filter(k__gte=1).order_by("-k", "id")


class Item(models.Model):
    i1 = models.IntegerField(null=True)
    i2 = models.IntegerField(null=True)
    r1 = models.FloatField(null=True)
    s1 = models.CharField(max_length=100, null=True)
    s2 = models.CharField(max_length=100, null=True)
    b1 = models.BooleanField(null=True)
    t1 = models.DateTimeField(null=True)
    d1 = models.DateField(null=True)
    k = models.IntegerField(default=0)
    g1 = models.UUIDField(null=True)
    owner = models.ForeignKey(Owner, null=True, on_delete=models.SET_NULL, related_name="items")
    home = models.ForeignKey(Region, null=True, on_delete=models.SET_NULL, related_name="stored_items")
    # a relationship whose name ends in the name of another one (`owner`): only base queries join it
    # (it points at Country so that joining it never puts a table into the query that a filter's own
    # `owner` path needs as well - that would be known finding A8)
    co_owner = models.ForeignKey(Country, null=True, on_delete=models.SET_NULL, related_name="co_owned")
    tags = models.ManyToManyField(Tag, related_name="items")

    objects = models.Manager()
    positive = PositiveManager()

    class Meta:
        app_label = "djapp"


class Part(models.Model):
    item = models.ForeignKey(Item, on_delete=models.CASCADE, related_name="parts")
    n = models.IntegerField()
    label = models.CharField(max_length=50)

    class Meta:
        app_label = "djapp"
