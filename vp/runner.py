"""CLI, seed/tier plumbing, sharding, collect->bucket->shrink->replay, evidence, exit codes.

Exit codes: 0 = property held on everything explored (known findings are printed as
KNOWN-FINDING lines), 1 = at least one unlisted violation (VIOLATION line per bucket),
2 = harness error (never prints VIOLATION).
"""
import argparse
import collections
import hashlib
import importlib
import json
import multiprocessing
import os
import re
import subprocess
import sys
import time
import traceback

VERIF = os.path.dirname(os.path.dirname(os.path.abspath(__file__)))
DEPS = os.path.join(VERIF, ".deps")
WHEELS = "/opt/veriftools/wheels"
REPO = os.environ.get("VERIF_REPO", "/repo")
NPROC = int(os.environ.get("VERIF_NPROC", "16"))


class HarnessError(Exception):
    pass


def ensure_deps():
    """Make hypothesis / jsonschema / atheris importable; a restore brings back
    committed files only, so reinstall from the offline wheelhouse when missing."""
    if DEPS not in sys.path:
        sys.path.insert(1, DEPS)
    try:
        import hypothesis  # noqa: F401
        import jsonschema  # noqa: F401
        return
    except ImportError:
        pass
    os.makedirs(DEPS, exist_ok=True)
    cmd = [sys.executable, "-m", "pip", "install", "--quiet", "--no-index",
           "--find-links", WHEELS, "--target", DEPS, "hypothesis", "jsonschema", "atheris"]
    lock = os.path.join(VERIF, ".deps.lock")
    import fcntl
    with open(lock, "w") as lf:
        fcntl.flock(lf, fcntl.LOCK_EX)
        try:
            import importlib as _il
            _il.invalidate_caches()
            import hypothesis  # noqa: F401,F811
            import jsonschema  # noqa: F401,F811
            return
        except ImportError:
            subprocess.run(cmd, check=False, stdout=subprocess.DEVNULL, stderr=subprocess.DEVNULL)
    importlib.invalidate_caches()
    try:
        import hypothesis  # noqa: F401,F811
    except ImportError as e:
        raise HarnessError("cannot import hypothesis: %s" % e)


def use_repo():
    """Import the code under test from the repository working tree."""
    if sys.path[0] != REPO:
        sys.path.insert(0, REPO)
    import odata_query
    here = os.path.realpath(os.path.dirname(odata_query.__file__))
    want = os.path.realpath(os.path.join(REPO, "odata_query"))
    if here != want:
        raise HarnessError("odata_query imported from %s, expected %s" % (here, want))


def digest(obj):
    s = obj if isinstance(obj, str) else json.dumps(obj, sort_keys=True, default=str)
    return hashlib.blake2b(s.encode("utf-8", "surrogatepass"), digest_size=8).hexdigest()


class Acc:
    """Per-task accumulator (picklable result of a shard)."""

    MAX_SAMPLES = 6
    MAX_FAIL_PER_BUCKET = 8

    def __init__(self):
        self.evaluations = 0
        self.nontrivial = set()
        self.samples = []
        self.classes = collections.Counter()
        self.failures = []
        self._per_bucket = collections.Counter()
        self.extra = {}
        self.notes = []

    def case(self, key=None, nontrivial=True, sample=None, n=1):
        self.evaluations += n
        if nontrivial and key is not None:
            self.nontrivial.add(key if (isinstance(key, str) and len(key) == 16) else digest(key))
        if sample is not None and len(self.samples) < self.MAX_SAMPLES and nontrivial:
            self.samples.append(sample)

    def cls(self, name, n=1):
        self.classes[name] += n

    def fail(self, bucket, case, detail=""):
        self._per_bucket[bucket] += 1
        self.classes["FAIL:" + bucket] += 1
        if self._per_bucket[bucket] <= self.MAX_FAIL_PER_BUCKET:
            self.failures.append({"bucket": bucket, "case": case, "detail": str(detail)[:2000]})

    def result(self):
        return {
            "evaluations": self.evaluations, "nontrivial": self.nontrivial,
            "samples": self.samples, "classes": dict(self.classes),
            "failures": self.failures, "extra": self.extra, "notes": self.notes,
        }


def hyp_run(strategy, fn, n, seed):
    """Run fn over n generated examples (generate phase only, no Hypothesis shrinking:
    failures are collected by fn, not raised)."""
    import hypothesis
    from hypothesis import HealthCheck, Phase, given, settings

    @hypothesis.seed(seed)
    @settings(max_examples=n, database=None, deadline=None, derandomize=False,
              phases=[Phase.generate], suppress_health_check=list(HealthCheck),
              report_multiple_bugs=False)
    @given(strategy)
    def t(case):
        fn(case)

    t()


# ---- environment variants ------------------------------------------------------------------------
# A task that carries an "env" entry runs in a child interpreter started with other flags and
# variables (python -O, another TZ, another hash seed, a busy second thread): the listed properties
# are claims about the library, not about one way of starting Python. A failure found there records
# the variant in its case ("_env"), so shrinking is skipped and every replay runs in the same variant.

ENV_VARIANTS = [
    # quick tier: the first four (combinations keep the number of child interpreters down)
    {"name": "O+TZ-Kolkata", "flags": ["-O"], "vars": {"TZ": "Asia/Kolkata"}},
    {"name": "busy-thread+TZ-New_York+hashseed-7", "busy_thread": True, "vars": {"TZ": "America/New_York", "PYTHONHASHSEED": "7"}},
    {"name": "ast-from-another-process", "vars": {"VERIF_AST_PROVENANCE": "foreign-pickle"}},
    {"name": "ast-hand-built-shared-nodes+decimal-prec-6", "vars": {"VERIF_AST_PROVENANCE": "hashcons"},
     "startup": "import decimal; decimal.getcontext().prec = 6; decimal.DefaultContext.prec = 6"},
    # thorough tier: also each dimension on its own
    {"name": "O", "flags": ["-O"]},
    {"name": "TZ-Chatham+hashseed-12345", "vars": {"TZ": "Pacific/Chatham", "PYTHONHASHSEED": "12345"}},
    {"name": "busy-thread", "busy_thread": True},
    {"name": "ast-hand-built-shared-nodes", "vars": {"VERIF_AST_PROVENANCE": "hashcons"}},
]
ENV_NOTE = (" One generated-search shard and one slice of the exhaustive part are repeated in child interpreters that differ "
            "from the default one (python -O, other TZ and hash seed, a busy second thread using the library, trees pickled in "
            "another interpreter, trees built by hand with shared nodes and derived literals, a lowered decimal precision); "
            "their cases are counted in the classes cases_in_env_variant_*.")
_MARK = "@@VP-CHILD-RESULT@@"


def run_in_env(env, payload, timeout=3600):
    """Run payload ({"mode": "task"|"replay", ...}) in a child interpreter of the given variant."""
    cmd = [sys.executable] + list(env.get("flags", [])) + ["-m", "vp.runner", "--child"]
    e = dict(os.environ)
    e.update(env.get("vars", {}))
    e["VERIF_CHILD_BUSY_THREAD"] = "1" if env.get("busy_thread") else ""
    e["VERIF_CHILD_STARTUP"] = env.get("startup", "")
    p = subprocess.run(cmd, input=json.dumps(payload, default=str), env=e, cwd=VERIF, text=True,
                       stdout=subprocess.PIPE, stderr=subprocess.PIPE, timeout=timeout)
    for line in p.stdout.splitlines():
        if line.startswith(_MARK):
            return json.loads(line[len(_MARK):])
    raise HarnessError("child interpreter %s gave no result (rc=%s): %s" % (env.get("name"), p.returncode, p.stderr[-1500:]))


def _busy_thread():
    """A second thread that keeps the library busy on its own instances and its own trees."""
    import threading
    from odata_query.grammar import ODataLexer, ODataParser
    from odata_query.roundtrip import AstToODataVisitor
    from odata_query.sql import AstToSqliteSqlVisitor
    from odata_query.rewrite import AliasRewriter
    texts = ["zz1 eq 1 and contains(zz2, 'q') or zz3 in (1, 2, 3)", "zz6/any(t: t/zz7 eq 'x' and t/zz1/any(x: x eq t/zz2))",
             "zz1 mul zz2 add zz3 sub zz1 div 2 eq 1 or not zz2 eq 'a' and zz3 lt 1", "not (zz4/zz5 gt 2.5)", "zz6/any(t: t/zz7 eq 'x')",
             "tolower(zz8) eq 'y' and zz9 add 1 mul 2 lt 7", "zz10 eq 2020-01-01T00:00:00Z", "(zz11 eq", "zz12 eq 'unterminated",
             "length(zz13) eq 3 or startswith(zz14, 'a%_')", "zz15 eq duration'P1D' or zz16 eq null"]
    sys.setswitchinterval(1e-5)

    # every import happens here, on the main thread, before the second thread exists: two threads
    # importing one package at the same time is a hazard of the interpreter, not of the library
    from odata_query import ast
    from odata_query.utils import expression_relative_to_identifier
    core = None
    try:
        import sqlalchemy as sa
        import sqlalchemy.orm  # noqa: F401
        from odata_query.sqlalchemy import apply_odata_core
        tbl = sa.Table("zzbusy", sa.MetaData(), sa.Column("zz1", sa.Integer), sa.Column("zz2", sa.String),
                       sa.Column("zz3", sa.Integer))
        str(apply_odata_core(sa.select(tbl), "zz1 eq 1"))
        core = (sa, apply_odata_core, tbl)
    except Exception:
        pass
    try:
        import django  # noqa: F401
        import odata_query.django  # noqa: F401
    except Exception:
        pass

    def loop(rounds=None):
        lexer, parser = ODataLexer(), ODataParser()
        i = 0
        while rounds is None or i < rounds:
            t = texts[i % len(texts)]
            i += 1
            try:
                # its own instances throughout; new ones every few rounds, as a request handler would
                if i % 5 == 0:
                    lexer, parser = ODataLexer(), ODataParser()
                a = parser.parse(lexer.tokenize(t))
                AstToODataVisitor().visit(a)
                AliasRewriter({"zz1": "yy/zz1", "t": "zz1", "x": "zz2"}).visit(a)
                AstToSqliteSqlVisitor().visit(a)
                expression_relative_to_identifier(ast.Identifier("t"), a)
                if core and i % 3 == 0:
                    sa, apply_odata_core, tbl = core
                    str(apply_odata_core(sa.select(tbl), "zz1 eq %d and contains(zz2, 'q%d') or zz3 in (1, 2)" % (i, i)))
                if i % 3 == 1 and "vp.djapp.models" in sys.modules:
                    # the check has configured Django by now: the Django shorthand too (compile only, on this
                    # thread's own connection)
                    from odata_query.django import apply_odata_query as dj_apply
                    M = sys.modules["vp.djapp.models"]
                    str(dj_apply(M.Item.objects, "i1 eq %d and contains(s1, 'q%d') or i2 in (1, 2)" % (i, i)).query)
            except Exception:
                pass

    loop(3 * len(texts))      # once through on the main thread first (lazy imports inside the library)
    threading.Thread(target=loop, daemon=True).start()


def child_main():
    payload = json.load(sys.stdin)
    ensure_deps()
    use_repo()
    if os.environ.get("VERIF_CHILD_STARTUP"):
        exec(os.environ["VERIF_CHILD_STARTUP"], {})
    if os.environ.get("VERIF_CHILD_BUSY_THREAD"):
        _busy_thread()
    mod = importlib.import_module(payload["mod"])
    if payload["mode"] == "replay":
        res = mod.replay(payload["case"])
        out = {"res": list(res) if res else None}
    else:
        out = _worker((payload["mod"], payload["task"], payload["seed"]))
        if "nontrivial" in out:
            out["nontrivial"] = sorted(out["nontrivial"])
    sys.stdout.write("\n" + _MARK + json.dumps(out, default=str) + "\n")
    sys.stdout.flush()
    os._exit(0)      # daemon threads and ORM connections are not waited for


def replay_case(mod, case):
    """mod.replay(case), in the environment variant the case was found in (if any)."""
    env = case.get("_env") if isinstance(case, dict) else None
    if not env:
        return mod.replay(case)
    out = run_in_env(env, {"mode": "replay", "mod": mod.__name__, "case": case})
    return tuple(out["res"]) if out.get("res") else None


def env_tasks(mod, tasks, tier):
    """Clone one generated-search task per environment variant (other shard, half the cases)."""
    pick = getattr(mod, "env_clone", None)
    base = pick(tasks) if pick else None
    if base is None:
        is_rand = lambda t: "rand" in str(t.get("name", "")) or "rand" in str(t.get("kind", ""))   # noqa: E731
        rand = [t for t in tasks if is_rand(t)]
        other = [t for t in tasks if not is_rand(t)]
        base = rand[:1] + other[:1]      # one generated-search shard and one slice of the exhaustive part
    out = []
    for vi, v in enumerate(ENV_VARIANTS if tier == "thorough" else ENV_VARIANTS[:4]):
        for b in base:
            t = dict(b)
            t["name"] = "env-%s-%s" % (v["name"], b.get("name", "task"))
            if isinstance(t.get("n"), int) and ("rand" in str(b.get("name", "")) or "machine" in str(b.get("name", ""))):
                t["n"] = max(t["n"] // 2, 5)
            if "shard" in t:
                t["shard"] = 100 + vi
            t["env"] = v
            out.append(t)
    return out


def _worker(args):
    modname, task, seed = args
    if task.get("env"):
        try:
            env = task["env"]
            inner = {k: v for k, v in task.items() if k != "env"}
            r = run_in_env(env, {"mode": "task", "mod": modname, "task": inner, "seed": seed})
            if "harness_error" in r:
                return r
            r["nontrivial"] = set(r.get("nontrivial", []))
            for f in r.get("failures", []):
                f["bucket"] = "env[%s]:%s" % (env["name"], f["bucket"])
                if isinstance(f.get("case"), dict):
                    f["case"]["_env"] = env
            r["classes"] = {("FAIL:env[%s]:%s" % (env["name"], k[5:]) if k.startswith("FAIL:") else k): v
                            for k, v in r.get("classes", {}).items()}
            r["classes"]["cases_in_env_variant_" + env["name"]] = r.get("evaluations", 0)
            return r
        except BaseException:
            return {"harness_error": traceback.format_exc(), "task": task.get("name", "?")}
    try:
        os.environ.setdefault("PYTHONHASHSEED", "0")
        ensure_deps()
        use_repo()
        mod = importlib.import_module(modname)
        t0 = time.time()
        acc = Acc()
        mod.run_task(task, seed, acc)
        r = acc.result()
        r["task"] = task.get("name", "?")
        r["wall"] = time.time() - t0
        return r
    except BaseException:  # harness error, reported as such
        return {"harness_error": traceback.format_exc(), "task": task.get("name", "?")}


def run_covfuzz(modname, task, seed, acc):
    """A coverage-guided campaign (vp.fuzz_prop) for `modname`; failures come back as replayable cases."""
    import tempfile
    import shutil
    work = tempfile.mkdtemp(prefix="vp-covfuzz-")
    try:
        corpus = os.path.join(work, "corpus")
        os.makedirs(corpus)
        out = os.path.join(work, "failures.jsonl")
        env = dict(os.environ)
        env["PYTHONPATH"] = VERIF + os.pathsep + DEPS
        env["VERIF_FUZZ_OUT"] = out
        env["VERIF_REPO"] = REPO
        cmd = [sys.executable, "-m", "vp.fuzz_prop", modname, "-runs=%d" % task["runs"],
               "-seed=%d" % (seed * 100 + task.get("shard", 0) + 1), "-max_len=%d" % task.get("max_len", 2048),
               "-timeout=60", "-artifact_prefix=" + work + "/", "-print_final_stats=1", corpus]
        p = subprocess.run(cmd, cwd=VERIF, env=env, stdout=subprocess.PIPE, stderr=subprocess.STDOUT, text=True,
                           errors="replace")
        m = re.search(r"stat::number_of_executed_units:\s*(\d+)", p.stdout)
        execs = int(m.group(1)) if m else 0
        if not execs:
            raise HarnessError("coverage-guided campaign did not run: " + p.stdout[-1500:])
        acc.evaluations += execs
        acc.cls("coverage_guided_execs", execs)
        units = os.listdir(corpus)
        acc.cls("coverage_guided_corpus_units", len(units))
        for u in units:
            acc.nontrivial.add(digest("covfuzz:" + u))
        m2 = re.findall(r"cov: (\d+)", p.stdout)
        if m2:
            acc.extra["coverage_guided_edges"] = max(int(x) for x in m2)
        if os.path.exists(out):
            with open(out) as f:
                for line in f:
                    rec = json.loads(line)
                    acc.fail(rec["bucket"], rec["case"], rec["detail"])
        if p.returncode != 0 and not os.path.exists(out):
            acc.notes.append("coverage-guided campaign ended with rc=%s: %s" % (p.returncode, p.stdout[-400:]))
    finally:
        shutil.rmtree(work, ignore_errors=True)


def slug(s):
    return re.sub(r"[^A-Za-z0-9_.-]+", "_", s)[:80].strip("_") or "x"


_known_cache = {}


def load_known(pid):
    if pid not in _known_cache:
        _known_cache[pid] = _load_known(pid)
    return _known_cache[pid]


def _load_known(pid):
    p = os.path.join(VERIF, "known_findings.json")
    if not os.path.exists(p):
        return []
    with open(p) as f:
        data = json.load(f)
    return [e for e in data.get("findings", []) if e.get("property") == pid]


def known_ids(pid):
    return {e["id"] for e in load_known(pid) if e.get("status") == "known"}


def main(argv=None):
    if (argv or sys.argv[1:])[:1] == ["--child"]:
        return child_main()
    ap = argparse.ArgumentParser()
    ap.add_argument("prop")
    ap.add_argument("--tier", default=os.environ.get("VERIF_TIER", "quick"),
                    choices=["quick", "thorough"])
    ap.add_argument("--replay")
    ap.add_argument("--scale", type=float, default=float(os.environ.get("VERIF_SCALE", "1")))
    a = ap.parse_args(argv)
    pid = a.prop.upper()
    try:
        seed = int(os.environ.get("VERIF_SEED", "1") or "1")
    except ValueError:
        seed = 1
    os.environ["PYTHONHASHSEED"] = os.environ.get("PYTHONHASHSEED", "0")
    try:
        ensure_deps()
        use_repo()
        mod = importlib.import_module("vp.props." + pid.lower())
        if a.replay:
            return do_replay(pid, mod, a.replay)
        return do_run(pid, mod, a.tier, seed, a.scale)
    except HarnessError as e:
        print("HARNESS-ERROR property=%s %s" % (pid, e))
        return 2
    except Exception:
        print("HARNESS-ERROR property=%s\n%s" % (pid, traceback.format_exc()))
        return 2


def do_replay(pid, mod, path):
    with open(path) as f:
        rec = json.load(f)
    res = replay_case(mod, rec["case"])
    if res:
        print("replay %s: FAILS bucket=%s\n  %s" % (path, res[0], res[1]))
        print("VIOLATION property=%s replay=%s" % (pid, path))
        return 1
    print("replay %s: passes" % path)
    return 0


def do_run(pid, mod, tier, seed, scale):
    t0 = time.time()
    out_lines = []
    violations = 0
    known = load_known(pid)
    known_by_id = {e["id"]: e for e in known}

    # ---- 1. regression tier: committed replays ---------------------------------
    rdir = os.path.join(VERIF, "replays", pid)
    replayed = 0
    known_lines = []
    if os.path.isdir(rdir):
        for fn in sorted(os.listdir(rdir)):
            if not fn.endswith(".json"):
                continue
            path = os.path.join(rdir, fn)
            with open(path) as f:
                rec = json.load(f)
            res = replay_case(mod, rec["case"])
            replayed += 1
            rel = os.path.relpath(path, VERIF)
            fid = rec.get("finding")
            ent = known_by_id.get(fid) if fid else None
            if ent is not None and ent.get("status") == "known":
                if res:
                    known_lines.append("KNOWN-FINDING: property=%s %s [%s]" % (pid, ent["what"], fid))
                else:
                    print("note: known finding %s no longer reproduces (%s)" % (fid, rel))
            else:
                if res:
                    violations += 1
                    print("  regression replay fails: bucket=%s %s" % (res[0], res[1][:300]))
                    out_lines.append("VIOLATION property=%s replay=%s" % (pid, rel))
    for ln in sorted(set(known_lines)):
        print(ln)

    # ---- 2. generated search ----------------------------------------------------
    tasks = mod.plan(tier, seed, scale)
    if os.environ.get("VERIF_NO_ENV_VARIANTS") != "1":
        tasks = tasks + env_tasks(mod, tasks, tier)
    jobs = [("vp.props." + pid.lower(), t, seed) for t in tasks]
    if NPROC > 1 and len(jobs) > 1:
        ctx = multiprocessing.get_context("fork")
        with ctx.Pool(min(NPROC, len(jobs))) as pool:
            results = pool.map(_worker, jobs, chunksize=1)
    else:
        results = [_worker(j) for j in jobs]
    errs = [r for r in results if "harness_error" in r]
    if errs:
        for r in errs[:3]:
            print("HARNESS-ERROR property=%s task=%s\n%s" % (pid, r["task"], r["harness_error"]))
        return 2

    evaluations = sum(r["evaluations"] for r in results)
    nontrivial = set()
    classes = collections.Counter()
    samples = []
    failures = []
    extra = {}
    per_task = {}
    notes = []
    for r in results:
        nontrivial |= r["nontrivial"]
        classes.update(r["classes"])
        for s in r["samples"][:2]:
            if len(samples) < 12:
                samples.append(s)
        failures.extend(r["failures"])
        for k, v in r["extra"].items():
            if isinstance(v, (int, float)) and not isinstance(v, bool):
                extra[k] = extra.get(k, 0) + v
            else:
                extra[k] = v
        per_task[r["task"]] = {"evaluations": r["evaluations"], "wall_s": round(r["wall"], 2)}
        for n in r.get("notes", []):
            notes.append(n)

    # ---- 3. bucket -> shrink -> replay files -------------------------------------
    buckets = collections.OrderedDict()
    for f in failures:
        buckets.setdefault(f["bucket"], []).append(f)
    found_dir = os.environ.get("VERIF_FOUND_DIR") or os.path.join(rdir, "found")
    fail_samples = []
    sigf = getattr(mod, "signature", None)
    shrink = getattr(mod, "shrink", None)
    kf = getattr(mod, "known_class", None)
    n_shrink = 6 if sigf is not None else 3
    for bucket, members in buckets.items():
        groups = collections.OrderedDict()   # signature -> (size, case, detail)
        for m in members[:n_shrink]:
            case = m["case"]
            detail = m["detail"]
            if shrink is not None and not (isinstance(case, dict) and case.get("_env")):
                try:
                    case2 = shrink(case, bucket)
                    res = mod.replay(case2)
                    if res and res[0] == bucket:
                        case, detail = case2, res[1]
                except Exception:
                    print("note: shrinker raised, keeping unshrunk case\n" + traceback.format_exc())
            sig = sigf(case) if sigf is not None else ""
            sz = len(json.dumps(case, default=str))
            if sig not in groups or sz < groups[sig][0]:
                groups[sig] = (sz, case, detail)
        for sig, (_, case, detail) in groups.items():
            # a bucket the module attributes to a listed known finding is not an alarm
            kid = kf(case, bucket) if kf is not None else None
            if kid and kid in known_by_id and known_by_id[kid].get("status") == "known":
                ln = "KNOWN-FINDING: property=%s %s [%s]" % (pid, known_by_id[kid]["what"], kid)
                if ln not in known_lines:
                    print(ln)
                    known_lines.append(ln)
                extra["generated_cases_in_known_class"] = extra.get("generated_cases_in_known_class", 0) + 1
                continue
            os.makedirs(found_dir, exist_ok=True)
            name = slug(bucket) + ("-" + digest(sig)[:6] if sig else "")
            path = os.path.join(found_dir, "%s-seed%d-%s.json" % (tier, seed, name))
            with open(path, "w") as fh:
                json.dump({"property": pid, "bucket": bucket, "signature": sig, "case": case,
                           "detail": detail, "found_by": {"tier": tier, "seed": seed}},
                          fh, indent=1, default=str)
            rel = os.path.relpath(path, VERIF)
            violations += 1
            print("  bucket=%s (%d cases)%s\n    case=%s\n    %s" % (
                bucket, classes.get("FAIL:" + bucket, len(members)), (" sig=" + sig) if sig else "",
                json.dumps(case, default=str)[:700], detail[:700]))
            out_lines.append("VIOLATION property=%s replay=%s" % (pid, rel))
            fail_samples.append({"bucket": bucket, "case": case})

    # ---- 4. evidence ----------------------------------------------------------------
    wall = time.time() - t0
    cov = {
        "evaluations": int(evaluations),
        "distinct_nontrivial": len(nontrivial),
        "rule": getattr(mod, "RULE", "") + (ENV_NOTE if os.environ.get("VERIF_NO_ENV_VARIANTS") != "1" else ""),
        "environment_variants": [t["env"]["name"] for t in tasks if t.get("env")],
        "samples": samples + fail_samples,
        "classes": {k: v for k, v in sorted(classes.items())},
        "regression_replays_run": replayed,
        "tasks": per_task,
    }
    cov.update(extra)
    if notes:
        cov["notes"] = notes[:50]
        for n in notes[:20]:
            print("note: " + n)
    ev = {
        "property_id": pid, "tier": tier, "seed": seed, "level": "exploration",
        "coverage": cov, "assumptions": list(getattr(mod, "ASSUMPTIONS", [])),
        "wall_s": round(wall, 2), "violations": violations,
    }
    write_evidence(pid, ev)
    print("%s tier=%s seed=%d evaluations=%d distinct_nontrivial=%d violations=%d wall=%.1fs" % (
        pid, tier, seed, evaluations, len(nontrivial), violations, wall))
    for ln in out_lines:
        print(ln)
    return 1 if violations else 0


def write_evidence(pid, ev):
    evdir = os.environ.get("VERIF_EVIDENCE_DIR") or os.path.join(VERIF, "evidence")
    os.makedirs(evdir, exist_ok=True)
    try:
        import jsonschema
        sp = "/root/.vp/EVIDENCE.schema.json"
        if not os.path.exists(sp):
            sp = os.path.join(VERIF, "tools", "EVIDENCE.schema.json")
        with open(sp) as f:
            schema = json.load(f)
        jsonschema.validate(json.loads(json.dumps(ev, default=str)), schema)
    except ImportError:
        pass
    except Exception as e:  # schema violation is a harness problem, say so loudly
        print("note: evidence does not validate: %s" % str(e)[:300])
    with open(os.path.join(evdir, pid + ".json"), "w") as f:
        json.dump(ev, f, indent=1, default=str, sort_keys=True)
        f.write("\n")


if __name__ == "__main__":
    sys.exit(main())
