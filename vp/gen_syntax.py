"""Untyped, complete syntax generators over harness terms (DESIGN §3):
exhaustive enumerators and Hypothesis strategies. No library imports."""
import itertools

from hypothesis import strategies as st

from . import spec_tables
from .terms import ident

BINARY = ["or", "and", "eq", "ne", "lt", "le", "gt", "ge", "add", "sub", "mul", "div",
          "mod", "in"]
UNARY = ["not", "neg"]


def _node(op, l, r=None):
    if op in ("not", "neg"):
        return ("un", op, l)
    if op in ("and", "or"):
        return ("bool", op, l, r)
    if op in ("add", "sub", "mul", "div", "mod"):
        return ("bin", op, l, r)
    return ("cmp", op, l, r)


LEAF = ("id", "?", ())


def shapes(n, list_ops=False):
    """All operator trees with exactly n operator nodes; leaves are placeholders.
    The right operand of `in` is a two-element list of leaves (or, with
    list_ops=True, additionally a list whose first element is an operator tree)."""
    if n == 0:
        yield LEAF
        return
    for u in UNARY:
        for x in shapes(n - 1, list_ops):
            yield ("un", u, x)
    for b in BINARY:
        if b == "in":
            for l in shapes(n - 1, list_ops):
                yield ("cmp", "in", l, ("list", (LEAF, LEAF)))
            if list_ops:
                for k in range(0, n - 1):
                    for l in shapes(k, list_ops):
                        for e in shapes(n - 1 - k, list_ops):
                            if e is LEAF:
                                continue
                            yield ("cmp", "in", l, ("list", (e, LEAF)))
            continue
        for k in range(0, n):
            for l in shapes(k, list_ops):
                for r in shapes(n - 1 - k, list_ops):
                    yield _node(b, l, r)


NAMES = ["a", "b", "c", "d", "e", "f", "g", "h", "k", "m"]


def label(t, names=NAMES):
    """Replace placeholder leaves by distinct identifiers in source order."""
    it = iter(names)

    def go(x):
        if x is LEAF or x == LEAF:
            nm = next(it)
            return nm if isinstance(nm, tuple) else ident(nm)
        k = x[0]
        if k == "un":
            return ("un", x[1], go(x[2]))
        if k == "list":
            return ("list", tuple(go(e) for e in x[1]))
        return (k, x[1], go(x[2]), go(x[3]))

    return go(t)


def enumerate_ops(n, list_ops=False):
    for s in shapes(n, list_ops):
        yield label(s)


# ------------------------------------------------------------------------------------
# Hypothesis strategies
# ------------------------------------------------------------------------------------

SAFE_NAMES = ["a", "b", "c", "x", "y", "n1", "name", "price", "qty", "_u", "Id", "fooBar",
              "created_at", "v", "w", "item", "owner", "tags", "col9"]
VARS = ["x", "y", "v", "w", "it", "e"]
NAMESPACES = [("ns",), ("my", "pkg"), ("Ext",), ("geography",), ("x",)]

# canonical (lexer-normal) spellings of every literal kind
CANON = {
    "null": [""],
    "int": ["0", "1", "7", "42", "-3", "+5", "007", "123456789012345678901234567890"],
    "float": ["1.5", "0.25", "-2.75", "1e3", "2.5e-2", "-1.0E+2", "+0.5"],
    "bool": ["true", "false"],
    "guid": ["123e4567-e89b-12d3-a456-426614174000", "00000000-0000-0000-0000-000000000000",
             "ABCDEFAB-CDEF-ABCD-EFAB-CDEFABCDEFAB"],
    "date": ["2020-01-01", "1999-12-31", "2024-02-29"],
    "time": ["00:00:00", "23:59:59", "12:30:15.123", "08:05:00"],
    "datetime": ["2020-01-01T00:00:00Z", "2019-12-31T23:59:59.999+01:00", "2020-02-29T12:00",
                 "2020-06-15T08:30:00-05:30", "2021-03-04T05:06:07"],
    "duration": ["P1D", "PT1H", "-P1Y2M3DT4H5M6.5S", "PT0.5S", "+P3M", "P2Y"],
    "geo": ["POINT(1 2)", "SRID=4326;POINT(4.35 50.85)", "POLYGON((0 0,0 1,1 1,0 0))", "O''Hare POINT(0 0)", ""],
}

STR_ALPHABET = "abAB0 '%_\\\";-/,():=☃é\n\t"


def strings(full_unicode=False):
    if full_unicode:
        return st.one_of(
            st.text(alphabet=STR_ALPHABET, max_size=8),
            st.text(alphabet=st.characters(blacklist_categories=("Cs",)), max_size=10),
        )
    return st.text(alphabet=STR_ALPHABET, max_size=8)


def literals(kinds=None, full_unicode=False):
    kinds = list(kinds or CANON.keys()) + (["str"] if kinds is None else [])
    parts = []
    for k in kinds:
        if k == "str":
            parts.append(strings(full_unicode).map(lambda s: ("lit", "str", s)))
        else:
            parts.append(st.sampled_from(CANON[k]).map(lambda s, k=k: ("lit", k, s)))
    return st.one_of(parts)


def identifiers(namespaced=True):
    plain = st.sampled_from(SAFE_NAMES).map(lambda n: ident(n))
    if not namespaced:
        return plain
    nsd = st.tuples(st.sampled_from(NAMESPACES), st.sampled_from(SAFE_NAMES)).map(
        lambda p: ident(p[1], p[0]))
    return st.one_of(plain, plain, plain, nsd)


def paths(max_depth=4):
    def build(p):
        segs, ns = p
        t = ident(segs[0], ns or ())
        for s in segs[1:]:
            t = ("path", t, s)
        return t
    return st.tuples(st.lists(st.sampled_from(SAFE_NAMES), min_size=2, max_size=max_depth),
                     st.sampled_from([None, None, None] + NAMESPACES)).map(build)


BUILTINS = sorted(spec_tables.FUNCTIONS.items())


class Cfg:
    """What the generator may produce (fences for open known findings)."""

    def __init__(self, full_unicode=False, deep_lambda_owner=True, named3=True,
                 geo=True, named=True, lambdas=True, calls=True, namespaced_ids=True,
                 time_lit=True):
        self.full_unicode = full_unicode
        self.deep_lambda_owner = deep_lambda_owner
        self.named3 = named3
        self.geo = geo
        self.named = named
        self.lambdas = lambdas
        self.calls = calls
        self.namespaced_ids = namespaced_ids
        self.time_lit = time_lit


@st.composite
def exprs(draw, depth, cfg=None):
    """A term of the full grammar with nesting depth <= depth."""
    cfg = cfg or Cfg()
    if depth <= 0 or draw(st.integers(0, 9)) < 2:
        return draw(leaves(cfg))
    pick = draw(st.integers(0, 99))
    sub = exprs(depth - 1, cfg)
    if pick < 22:
        return ("bool", draw(st.sampled_from(["and", "or"])), draw(sub), draw(sub))
    if pick < 44:
        return ("cmp", draw(st.sampled_from(["eq", "ne", "lt", "le", "gt", "ge"])),
                draw(sub), draw(sub))
    if pick < 62:
        return ("bin", draw(st.sampled_from(["add", "sub", "mul", "div", "mod"])),
                draw(sub), draw(sub))
    if pick < 72:
        return ("un", draw(st.sampled_from(UNARY)), draw(sub))
    if pick < 79:
        n = draw(st.integers(1, 3))
        return ("cmp", "in", draw(sub), ("list", tuple(draw(sub) for _ in range(n))))
    if pick < 84:
        n = draw(st.integers(1, 3))
        return ("list", tuple(draw(sub) for _ in range(n)))
    if pick < 93 and cfg.calls:
        return draw(calls(depth - 1, cfg))
    if cfg.lambdas:
        return draw(lambdas(depth - 1, cfg))
    return draw(leaves(cfg))


def leaves(cfg):
    kinds = [k for k in CANON if (cfg.geo or k != "geo") and (cfg.time_lit or k != "time")]
    lits = st.one_of(
        st.one_of([st.sampled_from(CANON[k]).map(lambda s, k=k: ("lit", k, s)) for k in kinds]),
        strings(cfg.full_unicode).map(lambda s: ("lit", "str", s)),
    )
    return st.one_of(identifiers(cfg.namespaced_ids), identifiers(cfg.namespaced_ids),
                     lits, lits, paths())


@st.composite
def calls(draw, depth, cfg):
    sub = exprs(depth, cfg)
    if draw(st.integers(0, 2)) < 2:
        (ns, name), (lo, hi) = draw(st.sampled_from(BUILTINS))
        n = draw(st.integers(lo, hi))
        return ("call", name, ns, tuple(draw(sub) for _ in range(n)))
    ns = draw(st.sampled_from(NAMESPACES))
    name = draw(st.sampled_from(["f", "g", "length", "contains", "myFunc", "date"]))
    if cfg.named and draw(st.booleans()):
        hi = 5 if cfg.named3 else 2
        n = draw(st.integers(1, hi))
        names = draw(st.lists(st.sampled_from(SAFE_NAMES), min_size=n, max_size=n))
        return ("call", name, ns, tuple(("named", nm, draw(sub)) for nm in names))
    n = draw(st.integers(0, 5))
    return ("call", name, ns, tuple(draw(sub) for _ in range(n)))


@st.composite
def lambdas(draw, depth, cfg):
    maxd = 4 if cfg.deep_lambda_owner else 2
    d = draw(st.integers(1, maxd))
    segs = draw(st.lists(st.sampled_from(SAFE_NAMES), min_size=d, max_size=d))
    owner = ident(segs[0], draw(st.sampled_from([(), (), (), ("ns",), ("my", "pkg")])))
    for s in segs[1:]:
        owner = ("path", owner, s)
    c = draw(st.integers(0, 9))
    if c == 0:
        return ("lambda", owner, "any", None, None)
    var = draw(st.sampled_from(VARS))
    body = draw(lambda_bodies(depth, cfg, var))
    if depth > 0 and draw(st.integers(0, 4)) == 0:
        # an inner lambda that re-binds the same variable name, followed by a use of the outer one
        inner = ("lambda", ("path", ident(var), draw(st.sampled_from(SAFE_NAMES))), "any", var,
                 ("cmp", "eq", ("path", ident(var), "n"), ("lit", "int", "1")))
        body = ("bool", "and", inner, ("cmp", "eq", ("path", ident(var), draw(st.sampled_from(SAFE_NAMES))), ident(var)))
    return ("lambda", owner, "any" if c < 6 else "all", var, body)


@st.composite
def lambda_bodies(draw, depth, cfg, var):
    """A body that actually mentions the variable."""
    attr = draw(st.sampled_from(SAFE_NAMES))
    use = ("path", ident(var), attr) if draw(st.booleans()) else ident(var)
    rest = draw(exprs(max(depth - 1, 0), cfg))
    op = draw(st.sampled_from(["eq", "ne", "lt", "gt"]))
    core = ("cmp", op, use, rest)
    if depth > 0 and draw(st.booleans()):
        other = draw(exprs(depth - 1, cfg))
        return ("bool", draw(st.sampled_from(["and", "or"])), core, other)
    return core
