"""Untyped, complete syntax generators over harness terms (DESIGN §3):
exhaustive enumerators and Hypothesis strategies. No library imports."""
import itertools

from hypothesis import strategies as st

from . import spec_tables
from .terms import ident

BINARY = ["or", "and", "eq", "ne", "lt", "le", "gt", "ge", "add", "sub", "mul", "div",
          "mod", "in"]
UNARY = ["not", "neg"]


def _node(op, l, r=None):
    if op in ("not", "neg"):
        return ("un", op, l)
    if op in ("and", "or"):
        return ("bool", op, l, r)
    if op in ("add", "sub", "mul", "div", "mod"):
        return ("bin", op, l, r)
    return ("cmp", op, l, r)


LEAF = ("id", "?", ())


def shapes(n, list_ops=False):
    """All operator trees with exactly n operator nodes; leaves are placeholders.
    The right operand of `in` is a two-element list of leaves (or, with
    list_ops=True, additionally a list whose first element is an operator tree)."""
    if n == 0:
        yield LEAF
        return
    for u in UNARY:
        for x in shapes(n - 1, list_ops):
            yield ("un", u, x)
    for b in BINARY:
        if b == "in":
            for l in shapes(n - 1, list_ops):
                yield ("cmp", "in", l, ("list", (LEAF, LEAF)))
            if list_ops:
                for k in range(0, n - 1):
                    for l in shapes(k, list_ops):
                        for e in shapes(n - 1 - k, list_ops):
                            if e is LEAF:
                                continue
                            yield ("cmp", "in", l, ("list", (e, LEAF)))
            continue
        for k in range(0, n):
            for l in shapes(k, list_ops):
                for r in shapes(n - 1 - k, list_ops):
                    yield _node(b, l, r)


NAMES = ["a", "b", "c", "d", "e", "f", "g", "h", "k", "m"]


def label(t, names=NAMES):
    """Replace placeholder leaves by distinct identifiers in source order."""
    it = iter(names)

    def go(x):
        if x is LEAF or x == LEAF:
            nm = next(it)
            return nm if isinstance(nm, tuple) else ident(nm)
        k = x[0]
        if k == "un":
            return ("un", x[1], go(x[2]))
        if k == "list":
            return ("list", tuple(go(e) for e in x[1]))
        return (k, x[1], go(x[2]), go(x[3]))

    return go(t)


def enumerate_ops(n, list_ops=False):
    for s in shapes(n, list_ops):
        yield label(s)


# ------------------------------------------------------------------------------------
# Hypothesis strategies
# ------------------------------------------------------------------------------------

SAFE_NAMES = ["a", "b", "c", "x", "y", "n1", "name", "price", "qty", "_u", "Id", "fooBar",
              "created_at", "v", "w", "item", "owner", "tags", "col9"]
VARS = ["x", "y", "v", "w", "it", "e"]
NAMESPACES = [("ns",), ("my", "pkg"), ("Ext",), ("geography",), ("x",)]

# canonical (lexer-normal) spellings of every literal kind
CANON = {
    "null": [""],
    "int": ["0", "1", "7", "42", "-3", "+5", "007", "123456789012345678901234567890"],
    "float": ["1.5", "0.25", "-2.75", "1e3", "2.5e-2", "-1.0E+2", "+0.5"],
    "bool": ["true", "false"],
    "guid": ["123e4567-e89b-12d3-a456-426614174000", "00000000-0000-0000-0000-000000000000",
             "ABCDEFAB-CDEF-ABCD-EFAB-CDEFABCDEFAB"],
    "date": ["2020-01-01", "1999-12-31", "2024-02-29"],
    "time": ["00:00:00", "23:59:59", "12:30:15.123", "08:05:00"],
    "datetime": ["2020-01-01T00:00:00Z", "2019-12-31T23:59:59.999+01:00", "2020-02-29T12:00",
                 "2020-06-15T08:30:00-05:30", "2021-03-04T05:06:07"],
    "duration": ["P1D", "PT1H", "-P1Y2M3DT4H5M6.5S", "PT0.5S", "+P3M", "P2Y"],
    "geo": ["POINT(1 2)", "SRID=4326;POINT(4.35 50.85)", "POLYGON((0 0,0 1,1 1,0 0))", "O''Hare POINT(0 0)", ""],
}

STR_ALPHABET = "abAB0 '%_\\\";-/,():=☃é\n\t"


def strings(full_unicode=False):
    if full_unicode:
        return st.one_of(
            st.text(alphabet=STR_ALPHABET, max_size=8),
            st.text(alphabet=st.characters(blacklist_categories=("Cs",)), max_size=10),
        )
    return st.text(alphabet=STR_ALPHABET, max_size=8)


def literals(kinds=None, full_unicode=False):
    kinds = list(kinds or CANON.keys()) + (["str"] if kinds is None else [])
    parts = []
    for k in kinds:
        if k == "str":
            parts.append(strings(full_unicode).map(lambda s: ("lit", "str", s)))
        else:
            parts.append(st.sampled_from(CANON[k]).map(lambda s, k=k: ("lit", k, s)))
    return st.one_of(parts)


def identifiers(namespaced=True):
    plain = st.sampled_from(SAFE_NAMES).map(lambda n: ident(n))
    if not namespaced:
        return plain
    nsd = st.tuples(st.sampled_from(NAMESPACES), st.sampled_from(SAFE_NAMES)).map(
        lambda p: ident(p[1], p[0]))
    return st.one_of(plain, plain, plain, nsd)


def paths(max_depth=4):
    def build(p):
        segs, ns = p
        t = ident(segs[0], ns or ())
        for s in segs[1:]:
            t = ("path", t, s)
        return t
    return st.tuples(st.lists(st.sampled_from(SAFE_NAMES), min_size=2, max_size=max_depth),
                     st.sampled_from([None, None, None] + NAMESPACES)).map(build)


BUILTINS = sorted(spec_tables.FUNCTIONS.items())


class Cfg:
    """What the generator may produce (fences for open known findings)."""

    def __init__(self, full_unicode=False, deep_lambda_owner=True, named3=True,
                 geo=True, named=True, lambdas=True, calls=True, namespaced_ids=True,
                 time_lit=True):
        self.full_unicode = full_unicode
        self.deep_lambda_owner = deep_lambda_owner
        self.named3 = named3
        self.geo = geo
        self.named = named
        self.lambdas = lambdas
        self.calls = calls
        self.namespaced_ids = namespaced_ids
        self.time_lit = time_lit


def exprs(depth, cfg=None, scale=True):
    """A term of the full grammar with nesting depth <= depth; one draw in 25 is instead a term that
    is large along one dimension of the size ladder (see `scaled`)."""
    cfg = cfg or Cfg()
    small = _exprs(depth, cfg)
    if not scale or depth < 2:
        return small
    return st.one_of(*([small] * 24 + [scaled(cfg)]))


@st.composite
def _exprs(draw, depth, cfg=None):
    cfg = cfg or Cfg()
    if depth <= 0 or draw(st.integers(0, 9)) < 2:
        return draw(leaves(cfg))
    pick = draw(st.integers(0, 99))
    sub = _exprs(depth - 1, cfg)
    if pick < 22:
        return ("bool", draw(st.sampled_from(["and", "or"])), draw(sub), draw(sub))
    if pick < 44:
        return ("cmp", draw(st.sampled_from(["eq", "ne", "lt", "le", "gt", "ge"])),
                draw(sub), draw(sub))
    if pick < 62:
        return ("bin", draw(st.sampled_from(["add", "sub", "mul", "div", "mod"])),
                draw(sub), draw(sub))
    if pick < 72:
        return ("un", draw(st.sampled_from(UNARY)), draw(sub))
    if pick < 79:
        n = draw(st.integers(1, 3))
        return ("cmp", "in", draw(sub), ("list", tuple(draw(sub) for _ in range(n))))
    if pick < 84:
        n = draw(st.integers(1, 3))
        return ("list", tuple(draw(sub) for _ in range(n)))
    if pick < 93 and cfg.calls:
        return draw(calls(depth - 1, cfg))
    if cfg.lambdas:
        return draw(lambdas(depth - 1, cfg))
    return draw(leaves(cfg))


def leaves(cfg):
    kinds = [k for k in CANON if (cfg.geo or k != "geo") and (cfg.time_lit or k != "time")]
    lits = st.one_of(
        st.one_of([st.sampled_from(CANON[k]).map(lambda s, k=k: ("lit", k, s)) for k in kinds]),
        strings(cfg.full_unicode).map(lambda s: ("lit", "str", s)),
    )
    return st.one_of(identifiers(cfg.namespaced_ids), identifiers(cfg.namespaced_ids),
                     lits, lits, paths())


@st.composite
def calls(draw, depth, cfg):
    sub = _exprs(depth, cfg)
    if draw(st.integers(0, 2)) < 2:
        (ns, name), (lo, hi) = draw(st.sampled_from(BUILTINS))
        n = draw(st.integers(lo, hi))
        return ("call", name, ns, tuple(draw(sub) for _ in range(n)))
    ns = draw(st.sampled_from(NAMESPACES))
    name = draw(st.sampled_from(["f", "g", "length", "contains", "myFunc", "date"]))
    if cfg.named and draw(st.booleans()):
        hi = 5 if cfg.named3 else 2
        n = draw(st.integers(1, hi))
        names = draw(st.lists(st.sampled_from(SAFE_NAMES), min_size=n, max_size=n))
        return ("call", name, ns, tuple(("named", nm, draw(sub)) for nm in names))
    n = draw(st.integers(0, 5))
    return ("call", name, ns, tuple(draw(sub) for _ in range(n)))


@st.composite
def lambdas(draw, depth, cfg):
    maxd = 4 if cfg.deep_lambda_owner else 2
    d = draw(st.integers(1, maxd))
    segs = draw(st.lists(st.sampled_from(SAFE_NAMES), min_size=d, max_size=d))
    owner = ident(segs[0], draw(st.sampled_from([(), (), (), ("ns",), ("my", "pkg")])))
    for s in segs[1:]:
        owner = ("path", owner, s)
    c = draw(st.integers(0, 9))
    if c == 0:
        return ("lambda", owner, "any", None, None)
    var = draw(st.sampled_from(VARS))
    body = draw(lambda_bodies(depth, cfg, var))
    k = draw(st.integers(0, 5)) if depth > 0 else 9
    if k == 0:
        # an inner lambda that re-binds the same variable name, followed by a use of the outer one
        inner = ("lambda", ("path", ident(var), draw(st.sampled_from(SAFE_NAMES))), "any", var,
                 ("cmp", "eq", ("path", ident(var), "n"), ("lit", "int", "1")))
        body = ("bool", "and", inner, ("cmp", "eq", ("path", ident(var), draw(st.sampled_from(SAFE_NAMES))), ident(var)))
    elif k == 1:
        # an inner lambda over a collection of the outer variable that binds ANOTHER name and whose body
        # mentions the outer variable (bare and as a path root) next to its own and to a plain field
        var2 = draw(st.sampled_from([v for v in VARS if v != var]))
        names = draw(st.lists(st.sampled_from(SAFE_NAMES), min_size=4, max_size=4))
        outer_use = ("path", ident(var), names[0]) if draw(st.booleans()) else ident(var)
        ib = ("cmp", draw(st.sampled_from(["gt", "eq", "ne"])), ("path", ident(var2), names[1]), outer_use)
        c2 = draw(st.integers(0, 2))
        if c2 == 0:
            ib = ("bool", "and", ib, ("cmp", "lt", ("path", ident(var2), names[2]), ident(names[3])))
        elif c2 == 1:
            ib = ("bool", "or", ("cmp", "eq", ident(var), ident(names[3])), ib)
        inner = ("lambda", ("path", ident(var), names[2]), draw(st.sampled_from(["any", "all"])), var2, ib)
        body = inner if draw(st.booleans()) else ("bool", draw(st.sampled_from(["and", "or"])), inner, body)
    return ("lambda", owner, "any" if c < 6 else "all", var, body)


@st.composite
def lambda_bodies(draw, depth, cfg, var):
    """A body that actually mentions the variable."""
    attr = draw(st.sampled_from(SAFE_NAMES))
    use = ("path", ident(var), attr) if draw(st.booleans()) else ident(var)
    rest = draw(_exprs(max(depth - 1, 0), cfg))
    op = draw(st.sampled_from(["eq", "ne", "lt", "gt"]))
    core = ("cmp", op, use, rest)
    if depth > 0 and draw(st.booleans()):
        other = draw(_exprs(depth - 1, cfg))
        return ("bool", draw(st.sampled_from(["and", "or"])), core, other)
    return core


# ---- the size ladder ---------------------------------------------------------------------------
# Sizes at which implementations commonly switch strategy (chunking, caching, iterative fallbacks,
# fixed-width fields): powers of two and of ten and their neighbours. A scaled term is large along
# exactly one dimension and carries a few drawn "special" sub-terms at boundary or random positions.

LADDER = {
    "list": [5, 8, 9, 10, 11, 12, 13, 16, 17, 25, 32, 33, 37, 64, 65, 100, 101, 129, 257, 1000, 1001],
    "chain": [9, 12, 13, 14, 17, 33, 49, 50, 51, 64, 65, 66, 129],
    "nest": [5, 6, 7, 9, 13, 17, 33, 65],
    "hops": [5, 6, 8, 9, 10, 17, 33],
    "args": [4, 5, 6, 9, 17, 33],
    "name": [33, 64, 65, 66, 100, 127, 128],
    "digits": [15, 16, 17, 18, 19, 20, 21, 25, 40],
    "strlen": [16, 17, 33, 65, 129, 300, 1025],
}
BOUNDARY = [8, 9, 10, 12, 15, 16, 17, 31, 32, 33, 63, 64, 65, 99, 100, 127, 128, 255, 256, 999, 1000]


def _positions(r, n, k):
    """k positions in range(n): ends, ladder boundaries and random ones."""
    cand = [0, n - 1, n - 2] + [b for b in BOUNDARY if b < n] + [r.randrange(n) for _ in range(3)]
    cand = [c for c in cand if 0 <= c < n]
    return sorted(set(r.sample(cand, min(k, len(cand)))))


@st.composite
def scaled(draw, cfg=None, dims=None):
    import random
    cfg = cfg or Cfg()
    dim = draw(st.sampled_from(dims or sorted(LADDER)))
    n = draw(st.sampled_from(LADDER[dim]))
    r = random.Random(draw(st.integers(0, 2 ** 30)))
    specials = [draw(_exprs(1, cfg)) for _ in range(3)]
    small = [draw(_exprs(0, cfg)) for _ in range(3)]
    t = _build_scaled(dim, n, r, specials, small, cfg)
    ctx = draw(st.integers(0, 9))
    if ctx == 0:
        t = ("un", "not", t)
    elif ctx == 1:
        t = ("bool", "and", small[0], t)
    elif ctx == 2:
        t = ("bool", "or", t, small[1])
    elif ctx == 3:
        t = ("cmp", "eq", small[2], t)
    elif ctx == 4:
        t = ("bin", "add", small[0], t)
    elif ctx == 5:
        t = ("un", "neg", t)
    return t


def _lit_pool(r, kind):
    if kind == 0:
        return lambda i: ("lit", "int", str(i))
    if kind == 1:
        return lambda i: ("lit", "int", str(i % 3))              # many repeated values
    if kind == 2:
        return lambda i: ("lit", "str", ["a", "it's", "x', 'y", "a''b", "", "%_", "two  blanks", " lead", "tab\there"][i % 9] + str(i // 9 % 4))
    if kind == 3:
        return lambda i: [("lit", "int", str(i)), ("lit", "str", "s%d" % i), ("lit", "null", ""),
                          ("lit", "float", "%d.5" % i), ("lit", "bool", "true"), ("lit", "date", "2020-01-01"),
                          ("lit", "duration", "P1D"), ("lit", "guid", "00000000-0000-0000-0000-000000000000")][i % 8]
    return lambda i: ident(SAFE_NAMES[i % len(SAFE_NAMES)])


def _build_scaled(dim, n, r, specials, small, cfg):
    if dim in ("list", "args"):
        mk = _lit_pool(r, r.randrange(5))
        items = [mk(i) for i in range(n)]
        for p, sp in zip(_positions(r, n, r.randrange(0, 4)), specials):
            items[p] = sp
        if dim == "args":
            name = r.choice(["f", "g", "myFunc", "concat", "contains"])
            return ("call", name, r.choice(NAMESPACES), tuple(items))
        lst = ("list", tuple(items))
        k = r.randrange(10)
        if k < 7:
            return ("cmp", "in", small[0], lst)
        if k < 9 and cfg.calls:
            return ("call", "f", ("ns",), (lst, small[1]))
        return ("cmp", "in", ("un", "neg", small[0]), lst)
    if dim == "chain":
        fam = r.choice([["and"], ["or"], ["and"], ["or"], ["add", "sub"], ["mul", "div", "mod"], ["sub"], ["div"],
                        ["eq", "ne"], ["lt", "ge"]])
        kind = {"and": "bool", "or": "bool"}.get(fam[0], "cmp" if fam[0] in ("eq", "ne", "lt", "ge") else "bin")
        mk = _lit_pool(r, 4 if kind == "bool" else r.choice([0, 4]))
        items = [mk(i) for i in range(n)]
        other = {"and": "or", "or": "and", "add": "mul", "sub": "mul", "mul": "add", "div": "sub", "mod": "add",
                 "eq": "lt", "ne": "add", "lt": "eq", "ge": "and"}
        for p, sp in zip(_positions(r, n, r.randrange(0, 4)), specials):
            # a group of the neighbouring precedence level, or a drawn special
            items[p] = (("bool" if other[fam[0]] in ("and", "or") else "cmp" if other[fam[0]] in ("eq", "lt") else "bin"),
                        other[fam[0]], items[p], small[0]) if r.random() < 0.6 else sp
        if r.random() < 0.4:
            items[0] = (("bool" if other[fam[0]] in ("and", "or") else "cmp" if other[fam[0]] in ("eq", "lt") else "bin"),
                        other[fam[0]], items[0], small[1])
        shape = r.randrange(4)
        if shape < 2:
            t = items[0]
            for x in items[1:]:
                t = (kind, r.choice(fam), t, x)
            return t
        if shape == 2:
            t = items[-1]
            for x in reversed(items[:-1]):
                t = (kind, r.choice(fam), x, t)
            return t

        def bal(xs):
            if len(xs) == 1:
                return xs[0]
            m = len(xs) // 2
            return (kind, r.choice(fam), bal(xs[:m]), bal(xs[m:]))
        return bal(items)
    if dim == "nest":
        t = specials[0]
        wraps = r.choice([["not"], ["neg"], ["paren"], ["call"], ["not", "neg", "paren", "call", "list", "lambda"],
                          ["concat"], ["paren", "not"], ["lambda"]])
        for i in range(n):
            w = r.choice(wraps)
            if w == "not":
                t = ("un", "not", t)
            elif w == "neg":
                t = ("un", "neg", t)
            elif w == "paren":
                # forces parentheses in the minimal print: a lower level under a higher one
                t = ("bin", "mul", ("bin", "add", t, small[i % 3]), small[(i + 1) % 3]) if i % 2 else \
                    ("bool", "and", ("bool", "or", small[i % 3], t), small[(i + 1) % 3])
            elif w == "call" and cfg.calls:
                t = ("call", r.choice(["tolower", "toupper", "trim", "length"]), (), (t,))
            elif w == "concat" and cfg.calls:
                t = ("call", "concat", (), (t, small[i % 3])) if i % 2 else ("call", "concat", (), (small[i % 3], t))
            elif w == "list":
                t = ("cmp", "in", small[i % 3], ("list", (t, small[(i + 1) % 3])))
            elif w == "lambda" and cfg.lambdas:
                var = "q%d" % i
                t = ("lambda", ("path", ident("o%d" % i), "items"), r.choice(["any", "all"]), var,
                     ("bool", "and", ("cmp", "eq", ("path", ident(var), "k"), small[i % 3]), t))
            else:
                t = ("un", "not", t)
        return t
    if dim == "hops":
        segs = [r.choice(SAFE_NAMES) for _ in range(n)]
        t = ident(r.choice(SAFE_NAMES), r.choice([(), (), ("ns",), ("my", "pkg")]) if cfg.namespaced_ids else ())
        for sname in segs:
            t = ("path", t, sname)
        k = r.randrange(6)
        if k == 0 and cfg.lambdas:
            return ("lambda", t, "any", "z", ("cmp", "eq", ("path", ("path", ident("z"), "a"), "b"), small[0]))
        if k == 1 and cfg.calls:
            return ("call", "f", ("ns",), (t, small[0]))
        if k == 2:
            return ("cmp", "in", t, ("list", (small[0], t)))
        return ("cmp", r.choice(["eq", "ne", "lt"]), t, small[0])
    if dim == "name":
        base = r.choice(["a", "Z9_", "null", "not", "x_", "eq"])
        name = (base * 200)[:n]
        k = r.randrange(5)
        if k == 0 and cfg.namespaced_ids:
            # the whole dotted token has length n
            ns1 = name[: n // 3]
            rest = name[n // 3 + 1:]
            return ("cmp", "eq", ident(rest, (ns1,)), small[0]) if rest else ("cmp", "eq", ident(name), small[0])
        if k == 1 and cfg.calls:
            return ("call", name[:n - 3], ("ns",), (small[0],))   # "ns." counts towards the 128 of the token
        if k == 2:
            return ("cmp", "eq", ("path", ident("a"), name), small[0])
        if k == 3 and cfg.calls and cfg.named:
            return ("call", "f", ("ns",), (("named", name, small[0]),))
        return ("cmp", "eq", ident(name), small[0])
    if dim == "digits":
        d0 = r.choice("123456789")
        body = "".join(r.choice("0123456789") for _ in range(n - 1))
        k = r.randrange(6)
        if k == 0:
            lit = ("lit", "int", d0 + body)
        elif k == 1:
            lit = ("lit", "int", "-" + d0 + body)
        elif k == 2:
            lit = ("lit", "int", "0" * (n - 2) + d0 + body[:1])
        elif k == 3:
            cut = r.randrange(1, n)
            lit = ("lit", "float", (d0 + body)[:cut] + "." + ((d0 + body)[cut:] or "0"))
        elif k == 4:
            lit = ("lit", "float", d0 + "." + body + r.choice(["e3", "E3", "e-2", "E+10"]))
        else:
            lit = ("lit", "int", r.choice([str(2 ** 53 + 1), str(2 ** 63 - 1), str(-2 ** 63), str(2 ** 63), str(2 ** 64),
                                           str(2 ** 31), str(-2 ** 63 - 1), str(10 ** 18), str(10 ** 19)]))
        return ("cmp", r.choice(["eq", "lt", "ge"]), small[0], lit) if r.random() < 0.7 else \
            ("cmp", "in", small[0], ("list", (lit, small[1])))
    if dim == "strlen":
        unit = r.choice(["'", "%", "_", "\\", "a", "'a", "%_", " ", "  x", "\"", "é", "ab'"])
        text = (unit * n)[:n]
        lit = ("lit", "str", text)
        k = r.randrange(6)
        if k == 0 and cfg.calls:
            return ("call", r.choice(["contains", "startswith", "endswith"]), (), (small[0], lit))
        if k == 1:
            return ("cmp", "in", small[0], ("list", (lit, small[1])))
        if k == 2 and cfg.calls:
            return ("call", "concat", (), (lit, small[0]))
        return ("cmp", r.choice(["eq", "ne"]), small[0], lit)
    raise ValueError(dim)
