"""atheris/libFuzzer target for C10: bytes -> atom sequence -> parse; the oracle of
vp.props.c10 runs inside the target. Run as:  python -m vp.fuzz_c10 [libFuzzer args] <corpus>"""
import os
import sys


def bytes_to_text(data):
    """Decode fuzzer bytes into a string over C10's atom alphabet (plus raw chunks).
    Byte b < 200: atom number b % len(ATOMS). Byte >= 200: the next byte as a raw
    Latin-1 character. Pure function, shared by the target and the parent."""
    from .props.c10 import ATOMS
    out = []
    i = 0
    n = len(data)
    while i < n:
        b = data[i]
        i += 1
        if b < 200:
            out.append(ATOMS[b % len(ATOMS)])
        elif i < n:
            out.append(chr(data[i]))
            i += 1
    return "".join(out)


def main():
    here = os.path.dirname(os.path.dirname(os.path.abspath(__file__)))
    sys.path.insert(1, os.path.join(here, ".deps"))
    sys.path.insert(0, os.environ.get("VERIF_REPO", "/repo"))
    import atheris
    with atheris.instrument_imports(include=["odata_query.grammar"]):
        import odata_query.grammar  # noqa: F401
    from .props import c10

    def target(data):
        s = bytes_to_text(data)
        o = c10.outcome(s)           # fresh lexer + parser per iteration
        if o[0] == "bad":
            raise RuntimeError("C10 violation: %s on %r" % (o[1], s))

    atheris.Setup(sys.argv, target)
    atheris.Fuzz()


if __name__ == "__main__":
    main()
