"""Reference OData printer. Knows only the OData 4.01 §5.1.1.14 precedence table.

    or < and < eq ne < lt le gt ge < add sub < mul div mod < not,- (unary) < in < primary

Binary operators are left-associative, unary operators are prefix. Nothing here
imports the library under test.
"""
import random

PREC = {
    "or": 1, "and": 2,
    "eq": 3, "ne": 3,
    "lt": 4, "le": 4, "gt": 4, "ge": 4,
    "add": 5, "sub": 5,
    "mul": 6, "div": 6, "mod": 6,
    "not": 7, "neg": 7,
    "in": 8,
}
PRIMARY = 100


def prec(t):
    k = t[0]
    if k in ("bin", "cmp", "bool", "un"):
        return PREC[t[1]]
    return PRIMARY


class Style:
    """Default layout: single spaces, lower-case keywords, no optional blanks."""

    mode = "minimal"  # minimal | full | redundant

    def rws(self):
        return " "

    def bws(self):
        return ""

    def kw(self, s):
        return s

    def extra(self):
        """Number of redundant parenthesis pairs to put around an operand."""
        return 0


class FullStyle(Style):
    mode = "full"


WS_CHARS = [" ", "\t", "\n", "  ", " \t", "\n ", "\r\n", " \n\t ", " " * 40, "\t" * 33 + "\n" * 70]


class RandomStyle(Style):
    """Layout drawn from a private PRNG seeded by a generated integer, so a case
    is a pure function of (term, mode, seed)."""

    def __init__(self, seed, mode="minimal", ws=True, case=True, redundant=False,
                 p_bws=0.35, p_case=0.5):
        self.r = random.Random(seed)
        self.mode = mode
        self.ws = ws
        self.case = case
        self.redundant = redundant
        self.p_bws = p_bws
        self.p_case = p_case

    def rws(self):
        if not self.ws:
            return " "
        return self.r.choice(WS_CHARS) if self.r.random() < 0.5 else " "

    def bws(self):
        if not self.ws or self.r.random() > self.p_bws:
            return ""
        return self.r.choice(WS_CHARS)

    def kw(self, s):
        if not self.case or self.r.random() > self.p_case:
            return s
        c = self.r.randrange(3)
        if c == 0:
            return s.upper()
        if c == 1:
            return s.capitalize()
        return "".join(ch.upper() if self.r.random() < 0.5 else ch.lower() for ch in s)

    def extra(self):
        if not self.redundant:
            return 0
        x = self.r.random()
        return 0 if x < 0.7 else (1 if x < 0.93 else 2)


OP_KW = {"neg": "-"}


def print_lit(t, st):
    _, kind, text = t
    if kind == "null":
        return st.kw("null")
    if kind == "str":
        return "'" + text.replace("'", "''") + "'"
    if kind == "geo":
        return st.kw("geography") + "'" + text + "'"
    if kind == "duration":
        return st.kw("duration") + "'" + text + "'"
    if kind == "bool":
        return st.kw(text)
    return text


def _paren(s, st, n=1):
    for _ in range(n):
        s = "(" + st.bws() + s + st.bws() + ")"
    return s


def render(t, st=None):
    """OData text of term t under style st."""
    if st is None:
        st = Style()
    return _r(t, st)


def _operand(child, st, need):
    s = _r(child, st)
    composite = child[0] in ("bin", "cmp", "bool", "un")
    if st.mode == "full" and composite:
        need = True
    n = (1 if need else 0)
    # redundant pairs never go around a list (a parenthesised list is still a
    # list, but "((1,2))" would be fine too) - keep them off lists so that an
    # `in` right operand stays a list_expr token-wise
    if child[0] != "list":
        n += st.extra()
    return _paren(s, st, n) if n else s


def _r(t, st):
    k = t[0]
    if k == "id":
        return ".".join(t[2] + (t[1],))
    if k == "path":
        return _r(t[1], st) + "/" + t[2]
    if k == "lit":
        return print_lit(t, st)
    if k == "list":
        items = t[1]
        if len(items) == 1:
            return "(" + st.bws() + _item(items[0], st) + st.bws() + "," + st.bws() + ")"
        sep_parts = []
        out = "(" + st.bws()
        for i, it in enumerate(items):
            if i:
                out += st.bws() + "," + st.bws()
            out += _item(it, st)
        return out + st.bws() + ")"
    if k in ("bin", "cmp", "bool"):
        op, l, r = t[1], t[2], t[3]
        p = PREC[op]
        ls = _operand(l, st, prec(l) < p)
        if op == "in":
            # right operand of `in` is a list expression, printed as such
            rs = _r(r, st) if r[0] == "list" else _operand(r, st, prec(r) <= p)
        else:
            rs = _operand(r, st, prec(r) <= p)
        return ls + st.rws() + st.kw(op) + st.rws() + rs
    if k == "un":
        op, x = t[1], t[2]
        p = PREC[op]
        xs = _operand(x, st, prec(x) < p)
        if op == "not":
            return st.kw("not") + st.rws() + xs
        # unary minus: "-" BWS operand. "-5" would lex as a negative literal and
        # "--" etc. are fine token-wise; keep a blank before a digit/sign so the
        # term ("un","neg",("lit","int","5")) stays distinguishable.
        gap = st.bws()
        if not gap and xs[:1] in "0123456789+-.":
            gap = " "
        return "-" + gap + xs
    if k == "call":
        name = ".".join(t[2] + (t[1],))
        args = t[3]
        if not args:
            return name + "(" + st.bws() + ")"
        out = name + "(" + st.bws()
        for i, a in enumerate(args):
            if i:
                out += st.bws() + "," + st.bws()
            out += _item(a, st)
        return out + st.bws() + ")"
    if k == "named":
        return t[1] + "=" + _item(t[2], st)
    if k == "lambda":
        owner, op, var, body = t[1], t[2], t[3], t[4]
        out = _r(owner, st) + "/" + st.kw(op) + "("
        if body is None:
            return out + st.bws() + ")"
        return (out + st.bws() + var + st.bws() + ":" + st.bws() + _item(body, st)
                + st.bws() + ")")
    raise ValueError(t)


def _item(t, st):
    """An expression in an argument/list/lambda-body slot: any common_expr."""
    if t[0] == "named":
        return _r(t, st)
    s = _r(t, st)
    composite = t[0] in ("bin", "cmp", "bool", "un")
    n = 0
    if st.mode == "full" and composite:
        n = 1
    if t[0] != "list":
        n += st.extra()
    return _paren(s, st, n) if n else s
