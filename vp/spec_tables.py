"""Tables copied by hand from the OData 4.01 URL-conventions specification
(§5.1.1.5-5.1.1.13 canonical functions, §5.1.1.14 operator precedence).
Independent of the library: nothing here is imported from odata_query."""

# (namespace, name) -> (min args, max args)
FUNCTIONS = {
    # 5.1.1.5 string and collection functions
    ((), "concat"): (2, 2),
    ((), "contains"): (2, 2),
    ((), "endswith"): (2, 2),
    ((), "indexof"): (2, 2),
    ((), "length"): (1, 1),
    ((), "startswith"): (2, 2),
    ((), "substring"): (2, 3),
    # 5.1.1.6 collection functions
    ((), "hassubset"): (2, 2),
    ((), "hassubsequence"): (2, 2),
    # 5.1.1.7 string functions
    ((), "matchesPattern"): (2, 2),
    ((), "tolower"): (1, 1),
    ((), "toupper"): (1, 1),
    ((), "trim"): (1, 1),
    # 5.1.1.8 date and time functions
    ((), "date"): (1, 1),
    ((), "day"): (1, 1),
    ((), "fractionalseconds"): (1, 1),
    ((), "hour"): (1, 1),
    ((), "maxdatetime"): (0, 0),
    ((), "mindatetime"): (0, 0),
    ((), "minute"): (1, 1),
    ((), "month"): (1, 1),
    ((), "now"): (0, 0),
    ((), "second"): (1, 1),
    ((), "time"): (1, 1),
    ((), "totaloffsetminutes"): (1, 1),
    ((), "totalseconds"): (1, 1),
    ((), "year"): (1, 1),
    # 5.1.1.9 arithmetic functions
    ((), "ceiling"): (1, 1),
    ((), "floor"): (1, 1),
    ((), "round"): (1, 1),
    # 5.1.1.11 geo functions
    (("geo",), "distance"): (2, 2),
    (("geo",), "intersects"): (2, 2),
    (("geo",), "length"): (1, 1),
}

# Return types: names of the harness's types
#   Bool Int Real Str Date Time DateTime  | "arg0" = derived from the first argument
RETURN_TYPES = {
    "concat": "arg0", "contains": "Bool", "endswith": "Bool", "indexof": "Int",
    "length": "Int", "startswith": "Bool", "substring": "arg0",
    "hassubset": "Bool", "hassubsequence": "Bool",
    "matchesPattern": "Bool", "tolower": "Str", "toupper": "Str", "trim": "Str",
    "date": "Date", "day": "Int", "fractionalseconds": "Real", "hour": "Int",
    "maxdatetime": "DateTime", "mindatetime": "DateTime", "minute": "Int", "month": "Int",
    "now": "DateTime", "second": "Int", "time": "Time", "totaloffsetminutes": "Int",
    "totalseconds": "Real", "year": "Int",
    "ceiling": "Real", "floor": "Real", "round": "Real",
    "geo.distance": "Real", "geo.intersects": "Bool", "geo.length": "Real",
}

# harness type -> library literal node class name
TYPE_NODE = {
    "Bool": "Boolean", "Int": "Integer", "Real": "Float", "Str": "String", "Date": "Date",
    "Time": "Time", "DateTime": "DateTime", "Duration": "Duration", "Guid": "GUID",
    "Geo": "Geography", "List": "List", "Null": "Null",
}
