"""Shared pieces of the semantic (row-level) checks C01-C03: comparing an engine's result
set with the reference evaluator, skeleton signatures for re-bucketing, typed shrinking."""
from . import evalref, gen_typed, shrink as shr
from .terms import children, from_json, rebuild, to_json, walk


def compare(term, rows, selected_ids, fences=()):
    """None, or (kind, detail) for the first decided row on which the engine disagrees."""
    stats = {"decided": 0, "undecided": 0, "selected": 0, "excluded_by_known_finding": 0}
    bad = None
    for i, row in enumerate(rows):
        decided, sel, notes = evalref.verdict(term, evalref.row_from_storage(row), fences=fences)
        if any(n.startswith("excluded-by-known-finding") for n in notes):
            stats["excluded_by_known_finding"] += 1
        if not decided:
            stats["undecided"] += 1
            continue
        stats["decided"] += 1
        if sel:
            stats["selected"] += 1
        got = (i + 1) in selected_ids
        if got != sel and bad is None:
            bad = ("missing-row" if sel else "extra-row",
                   "row %d %r: reference says %s, engine %s" % (i + 1, row, "selected" if sel else "not selected",
                                                                 "selected" if got else "not selected"))
    return bad, stats


def skeleton(t):
    """Term with leaves abstracted: columns -> their type, literals -> their kind."""
    k = t[0]
    if k == "id":
        return gen_typed.COLUMNS.get(t[1], "col")
    if k == "lit":
        return t[1]
    if k == "list":
        return "[%s]" % ",".join(sorted({skeleton(e) for e in t[1]}))
    if k in ("bin", "cmp", "bool"):
        return "(%s %s %s)" % (skeleton(t[2]), t[1], skeleton(t[3]))
    if k == "un":
        return "(%s %s)" % (t[1], skeleton(t[2]))
    if k == "call":
        return "%s(%s)" % (t[1], ",".join(skeleton(a) for a in t[3]))
    if k == "path":
        return "path"
    if k == "lambda":
        return "%s(%s)" % (t[2], skeleton(t[4]) if t[4] else "")
    return k


def features(t):
    out = set()
    for x in walk(t):
        if x[0] == "call":
            out.add("fn:" + x[1])
        elif x[0] == "un":
            out.add("un:" + x[1])
        elif x[0] in ("bin", "cmp", "bool"):
            out.add(x[0] + ":" + x[1])
    return out


def in_fragment(t, F):
    """Conservative membership test used by shrinkers (never lets a shrunk case leave the fragment)."""
    if not gen_typed.well_typed_pred(t):
        return False
    for x in walk(t):
        if x[0] == "call" and x[1] not in F.funcs:
            return False
        if x[0] == "un" and x[1] == "neg" and not F.neg:
            return False
        if x[0] == "bin" and x[1] == "mod" and not F.mod:
            return False
        if x[0] == "cmp" and x[1] in ("eq", "ne") and x[2] == ("lit", "null", "") and not F.null_left:
            return False
    if not F.bare_bool or not F.bare_bool_fn:
        if not _preds_ok(t, F):
            return False
    return True


def _preds_ok(t, F):
    """No bare Bool column / bare boolean call in predicate position when the fragment excludes them."""
    k = t[0]
    if k == "id":
        return F.bare_bool
    if k == "call":
        return F.bare_bool_fn
    if k == "bool":
        return _preds_ok(t[2], F) and _preds_ok(t[3], F)
    if k == "un" and t[1] == "not":
        return _preds_ok(t[2], F)
    return True


SIMPLE_LEAVES = [("lit", "int", "0"), ("lit", "int", "1"), ("lit", "str", ""), ("lit", "str", "a"),
                 ("lit", "float", "0.5"), ("id", "i1", ()), ("id", "s1", ()), ("id", "r1", ()),
                 ("cmp", "eq", ("id", "i1", ()), ("lit", "int", "1")),
                 ("cmp", "eq", ("lit", "int", "1"), ("lit", "int", "1"))]


def shrink_case(case, bucket, F, check, budget=350):
    """case = {"term", "rows", ...}; check(case) -> None | (bucket, detail)."""
    t = from_json(case["term"])

    def still_t(c):
        if not in_fragment(c, F):
            return False
        r = check(dict(case, term=to_json(c)))
        return bool(r) and r[0] == bucket

    t2 = shr.shrink_term(t, still_t, budget=budget, extra_leaves=SIMPLE_LEAVES)
    case = dict(case, term=to_json(t2))
    if "rows" in case:
        def still_r(rows):
            if not rows:
                return False
            r = check(dict(case, rows=rows))
            return bool(r) and r[0] == bucket

        rows = shr.shrink_list(case["rows"], still_r, budget=20)
        # null out columns that do not matter
        used = {x[1] for x in walk(t2) if x[0] == "id"}
        rows = [{k: (v if k in used else None) for k, v in r.items()} for r in rows]
        if still_r(rows):
            case = dict(case, rows=rows)
        else:
            case = dict(case, rows=shr.shrink_list(case["rows"], still_r, budget=20))
    if case.get("style") not in (None, "minimal"):
        c2 = dict(case, style="minimal")
        r = check(c2)
        if r and r[0] == bucket:
            case = c2
    return case


def confuse_rows(term, rows, seed):
    """Targeted data for LIKE-based functions: put strings derived from the literal needles of
    contains/startswith/endswith into the string columns of some rows, both true matches (needle
    embedded verbatim) and near misses that only a mis-escaped pattern would match (% replaced by
    arbitrary text, _ by one character, escape characters dropped)."""
    import random
    needles = [x[3][1][2] for x in walk(term)
               if x[0] == "call" and x[1] in ("contains", "startswith", "endswith") and x[3][1][0] == "lit"]
    needles = [n for n in needles if n]
    r = random.Random(seed)
    rows = _plant_members(term, [dict(x) for x in rows], r)
    if not needles:
        return rows
    for row in rows:
        if r.random() < 0.6:
            n = r.choice(needles)
            k = r.randrange(9)
            if k >= 7:
                # wildcards honoured only from some position on (or up to it): the characters on
                # the other side of a random cut stay literal
                idx = [i for i, ch in enumerate(n) if ch in "%_\\"]
                cut = r.choice(idx) if idx else 0
                head, tail = n[:cut], n[cut:]
                sub = lambda x: x.replace("%", r.choice(["xy", "", "zzz"])).replace("_", "q").replace("\\", "")
                v = head + sub(tail) if k == 7 else sub(head) + tail
            elif k == 0:
                v = n
            elif k == 1:
                v = r.choice(["", "a", "zz"]) + n + r.choice(["", "b", "zz"])
            elif k == 2:
                v = n.replace("%", r.choice(["xy", "", "a%"]))
            elif k == 3:
                v = n.replace("_", r.choice(["q", "ab", ""]))
            elif k == 4:
                v = n.replace("\\", "")
            elif k == 5:
                v = n.replace("\\", "\\\\")
            else:
                v = n.replace("%", "xy").replace("_", "q").replace("\\", "")
            row[r.choice(["s1", "s2"])] = v
    return rows


def _plant_members(term, rows, r):
    """Targeted data for long `in` lists and large integer literals: rows whose column holds the
    list's first, last and boundary-position members (and a non-member), or the neighbours of a
    large integer literal, so that a dropped member or a rounded literal changes the selection."""
    from .gen_syntax import BOUNDARY
    plants = []
    for x in walk(term):
        if x[0] == "cmp" and x[1] == "in" and x[2][0] == "id" and x[2][1] in ("i1", "i2", "s1", "s2") and len(x[3][1]) > 4:
            col = x[2][1]
            lits = [(i, e) for i, e in enumerate(x[3][1]) if e[0] == "lit" and e[1] in ("int", "str")]
            n = len(x[3][1])
            want = {0, 1, n - 1, n - 2} | {b + d for b in BOUNDARY for d in (-1, 0, 1) if b + d < n}
            chosen = [e for i, e in lits if i in want]
            r.shuffle(chosen)
            for e in chosen[:10]:
                plants.append((col, int(e[2]) if e[1] == "int" else e[2]))
            plants.append((col, -987654 if col[0] == "i" else "no such member"))
        if x[0] == "cmp" and x[2][0] == "id" and x[2][1] in ("i1", "i2") and x[3][0] == "lit" and x[3][1] == "int":
            v = int(x[3][2])
            if abs(v) >= 2 ** 31:
                for dv in (-1, 0, 1):
                    if -2 ** 63 <= v + dv < 2 ** 63:
                        plants.append((x[2][1], v + dv))
        if x[0] == "cmp" and x[2][0] == "id" and x[2][1] == "r1" and x[3][0] == "lit" and x[3][1] == "float":
            v = float(x[3][2])
            if abs(v) >= 100000:
                for dv in (-0.25, 0.0, 0.25):
                    plants.append(("r1", v + dv))
    if not plants:
        return rows
    base = list(rows)
    while len(rows) < min(len(plants), 14):
        rows.append(dict(r.choice(base)))
    order = list(range(len(rows)))
    r.shuffle(order)
    for i, (col, v) in zip(order, plants):
        rows[i][col] = v
    return rows


def lookalike_twins(t):
    """Filters that differ from t only in the letter case of string-literal contents, or in runs of
    blanks inside them: a translation cached on a normalised key would be returned for the wrong one."""
    def mapstr(x, f):
        if x[0] == "lit" and x[1] == "str":
            return ("lit", "str", f(x[2]))
        cs = children(x)
        return rebuild(x, [mapstr(c, f) for c in cs]) if cs else x
    out = []
    for f in (lambda v: v.swapcase(), lambda v: v.replace(" ", "  "), lambda v: v.lower()):
        t2 = mapstr(t, f)
        if t2 != t and t2 not in out:
            out.append(t2)
    return out


INT_COLS = ("i1", "i2")


def literalised(term, rows, seed, max_rows=2):
    """Metamorphic companions of a case: [(row index, term')] where term' is the filter with every reference
    to an Int column replaced by that row's own value written as an integer literal. For that row the filter
    and its companion denote the same thing whatever the reading of the operators (also where the reference
    evaluator abstains: division by zero, unfenced inexact division), so a backend must treat the row alike."""
    import random
    cols = sorted({x[1] for x in walk(term) if x[0] == "id" and not x[2] and x[1] in INT_COLS})
    if not cols:
        return []
    idx = [i for i, row in enumerate(rows) if all(row.get(c) is not None and abs(row[c]) < 2 ** 62 for c in cols)]
    random.Random(seed).shuffle(idx)
    out = []
    for i in idx[:max_rows]:
        def sub(t, i=i):
            if t[0] == "id" and not t[2] and t[1] in cols:
                return ("lit", "int", str(rows[i][t[1]]))
            cs = children(t)
            return rebuild(t, [sub(c) for c in cs]) if cs else t
        out.append((i, sub(term)))
    return out
