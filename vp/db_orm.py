"""Django and SQLAlchemy harnesses over the same schema, each on its own in-memory SQLite
(one connection per process). See DESIGN §5."""
import datetime as dt
import math

SCALAR_COLS = ["i1", "i2", "r1", "s1", "s2", "b1", "t1", "d1"]

# =============================================================================================
# Django
# =============================================================================================
_dj = None


def django_models():
    """Configure Django once per process, create the tables, return the models module."""
    global _dj
    if _dj is not None:
        return _dj
    import django
    from django.conf import settings
    if not settings.configured:
        settings.configure(
            DATABASES={"default": {"ENGINE": "django.db.backends.sqlite3", "NAME": ":memory:"}},
            INSTALLED_APPS=["vp.djapp"],
            USE_TZ=True, TIME_ZONE="UTC",
            DEFAULT_AUTO_FIELD="django.db.models.AutoField",
        )
        django.setup()
    from django.db import connection
    from django.db.backends.signals import connection_created

    def on_connect(sender, connection, **kw):
        with connection.cursor() as cur:
            cur.execute("PRAGMA case_sensitive_like=ON")

    connection_created.connect(on_connect)
    from vp.djapp import models as M
    connection.ensure_connection()
    with connection.cursor() as cur:
        cur.execute("PRAGMA case_sensitive_like=ON")
    with connection.schema_editor() as ed:
        for m in (M.Country, M.Region, M.Org, M.Owner, M.Tag, M.Item, M.Part):
            ed.create_model(m)
    _dj = M
    return M


def _aware(s):
    return dt.datetime.fromisoformat(s).replace(tzinfo=dt.timezone.utc) if s is not None else None


def _date(s):
    return dt.date.fromisoformat(s) if s is not None else None


def countries_of(inst):
    """Instances recorded before the Country table existed have none: every region then belongs to
    one default country."""
    return inst.get("countries") or [{"id": 1, "name": "c1"}]


def django_load(inst):
    """inst = {"items": [...], optional "regions","orgs","owners","tags","parts"}; ids are explicit."""
    M = django_models()
    from django.db import connection
    with connection.cursor() as cur:
        for tbl in ("djapp_part", "djapp_item_tags", "djapp_item", "djapp_tag", "djapp_owner", "djapp_org",
                    "djapp_region", "djapp_country"):
            cur.execute("DELETE FROM " + tbl)
    countries = countries_of(inst)
    M.Country.objects.bulk_create([M.Country(id=c["id"], name=c["name"]) for c in countries])
    M.Region.objects.bulk_create([M.Region(id=r["id"], name=r["name"], country_id=r.get("country", countries[0]["id"]))
                                  for r in inst.get("regions", [])])
    M.Org.objects.bulk_create([M.Org(id=o["id"], name=o["name"], size=o.get("size"), region_id=o.get("region"))
                               for o in inst.get("orgs", [])])
    M.Owner.objects.bulk_create([M.Owner(id=o["id"], name=o["name"], age=o.get("age"), rank=o.get("rank", 0),
                                         org_id=o.get("org"), region_id=o.get("region"), home_id=o.get("home"))
                                 for o in inst.get("owners", [])])
    M.Tag.objects.bulk_create([M.Tag(id=t["id"], label=t["label"], n=t["n"]) for t in inst.get("tags", [])])
    items = []
    for i, r in enumerate(inst["items"]):
        items.append(M.Item(id=r.get("id", i + 1), i1=r.get("i1"), i2=r.get("i2"), r1=r.get("r1"), s1=r.get("s1"),
                            s2=r.get("s2"), b1=r.get("b1"), t1=_aware(r.get("t1")), d1=_date(r.get("d1")),
                            k=r.get("k", 0), owner_id=r.get("owner"), home_id=r.get("home"), co_owner_id=r.get("co_owner")))
    M.Item.objects.bulk_create(items)
    through = M.Item.tags.through
    links = []
    for i, r in enumerate(inst["items"]):
        for tid in r.get("tags", []):
            links.append(through(item_id=r.get("id", i + 1), tag_id=tid))
    if links:
        through.objects.bulk_create(links)
    M.Part.objects.bulk_create([M.Part(id=p["id"], item_id=p["item"], n=p["n"], label=p["label"])
                                for p in inst.get("parts", [])])
    return M


# =============================================================================================
# SQLAlchemy
# =============================================================================================
_sa = None


class SA:
    pass


def _strpos(h, n):
    if h is None or n is None:
        return None
    return h.find(n) + 1


def _concat(*args):
    if any(a is None for a in args):
        return None
    return "".join(str(a) for a in args)


def _int_or_real(v):
    # SQLite integers are 64-bit: larger magnitudes stay REAL, as the engine's own arithmetic does
    return v if -2 ** 63 <= v < 2 ** 63 else float(v)


def _floor(x):
    return None if x is None else _int_or_real(math.floor(x))


def _ceil(x):
    return None if x is None else _int_or_real(math.ceil(x))


def _regexp(pattern, s):
    import re
    if pattern is None or s is None:
        return None
    return 1 if re.search(pattern, s) else 0


def sqlalchemy_models():
    global _sa
    if _sa is not None:
        return _sa
    import warnings
    import sqlalchemy as sa
    from sqlalchemy import event
    from sqlalchemy.exc import SAWarning
    warnings.filterwarnings("ignore", category=SAWarning)
    from sqlalchemy.orm import Session, declarative_base, relationship
    from sqlalchemy.pool import StaticPool

    Base = declarative_base()

    item_tags = sa.Table("item_tags", Base.metadata,
                         sa.Column("item_id", sa.ForeignKey("item.id"), primary_key=True),
                         sa.Column("tag_id", sa.ForeignKey("tag.id"), primary_key=True))

    class Country(Base):
        __tablename__ = "country"
        id = sa.Column(sa.Integer, primary_key=True)
        name = sa.Column(sa.String, nullable=False)
        regions = relationship("Region", back_populates="country")

    class Region(Base):
        __tablename__ = "region"
        id = sa.Column(sa.Integer, primary_key=True)
        country_id = sa.Column(sa.ForeignKey("country.id"), nullable=False)
        country = relationship("Country", back_populates="regions")
        name = sa.Column(sa.String)
        orgs = relationship("Org", back_populates="region")

    class Org(Base):
        __tablename__ = "org"
        id = sa.Column(sa.Integer, primary_key=True)
        name = sa.Column(sa.String)
        size = sa.Column(sa.Integer)
        region_id = sa.Column(sa.ForeignKey("region.id"))
        region = relationship("Region", back_populates="orgs")
        owners = relationship("Owner", back_populates="org", foreign_keys="Owner.org_id")

    class Owner(Base):
        __tablename__ = "owner"
        id = sa.Column(sa.Integer, primary_key=True)
        name = sa.Column(sa.String)
        age = sa.Column(sa.Integer)
        rank = sa.Column(sa.Integer, nullable=False, default=0)
        org_id = sa.Column(sa.ForeignKey("org.id"))
        region_id = sa.Column(sa.ForeignKey("region.id"))
        home_id = sa.Column(sa.ForeignKey("org.id"))
        org = relationship("Org", back_populates="owners", foreign_keys=[org_id])
        region = relationship("Region")
        home = relationship("Org", foreign_keys=[home_id])
        items = relationship("Item", back_populates="owner")

    class Tag(Base):
        __tablename__ = "tag"
        id = sa.Column(sa.Integer, primary_key=True)
        label = sa.Column(sa.String, nullable=False)
        n = sa.Column(sa.Integer, nullable=False)
        items = relationship("Item", secondary=item_tags, back_populates="tags")

    class Item(Base):
        __tablename__ = "item"
        id = sa.Column(sa.Integer, primary_key=True)
        i1 = sa.Column(sa.Integer)
        i2 = sa.Column(sa.Integer)
        r1 = sa.Column(sa.Float)
        s1 = sa.Column(sa.String)
        s2 = sa.Column(sa.String)
        b1 = sa.Column(sa.Boolean)
        t1 = sa.Column(sa.DateTime)
        d1 = sa.Column(sa.Date)
        k = sa.Column(sa.Integer, nullable=False, default=0)
        g1 = sa.Column(sa.String)
        owner_id = sa.Column(sa.ForeignKey("owner.id"))
        home_id = sa.Column(sa.ForeignKey("region.id"))
        co_owner_id = sa.Column(sa.ForeignKey("country.id"))
        owner = relationship("Owner", back_populates="items")
        home = relationship("Region")
        # a relationship whose name ends in the name of another one: only base queries join it (it points at
        # Country so that joining it never adds a table the filter's own `owner` path needs - known finding A8)
        co_owner = relationship("Country")
        parts = relationship("Part", back_populates="item")
        tags = relationship("Tag", secondary=item_tags, back_populates="items")

    class Part(Base):
        __tablename__ = "part"
        id = sa.Column(sa.Integer, primary_key=True)
        item_id = sa.Column(sa.ForeignKey("item.id"), nullable=False)
        n = sa.Column(sa.Integer, nullable=False)
        label = sa.Column(sa.String, nullable=False)
        item = relationship("Item", back_populates="parts")

    engine = sa.create_engine("sqlite://", poolclass=StaticPool, connect_args={"check_same_thread": False})

    @event.listens_for(engine, "connect")
    def on_connect(dbapi_conn, rec):
        dbapi_conn.execute("PRAGMA case_sensitive_like=ON")
        # The backend emits these PostgreSQL-style names; they are registered with their
        # documented meaning so that index shifts / argument order can be checked by execution.
        dbapi_conn.create_function("strpos", 2, _strpos, deterministic=True)
        dbapi_conn.create_function("concat", -1, _concat, deterministic=True)
        dbapi_conn.create_function("floor", 1, _floor, deterministic=True)
        dbapi_conn.create_function("ceil", 1, _ceil, deterministic=True)
        dbapi_conn.create_function("regexp", 2, _regexp, deterministic=True)

    Base.metadata.create_all(engine)
    s = SA()
    s.sa = sa
    s.Base = Base
    s.engine = engine
    s.Session = Session
    s.Region, s.Org, s.Owner, s.Tag, s.Item, s.Part, s.item_tags = Region, Org, Owner, Tag, Item, Part, item_tags
    s.Country = Country
    s.conn = engine.connect()
    s.session = Session(bind=s.conn)
    _sa = s
    return s


def _naive(s):
    return dt.datetime.fromisoformat(s) if s is not None else None


def sqlalchemy_load(inst):
    S = sqlalchemy_models()
    sa = S.sa
    c = S.conn
    S.session.rollback()
    S.session.expunge_all()
    for tbl in ("part", "item_tags", "item", "tag", "owner", "org", "region", "country"):
        c.execute(sa.text("DELETE FROM " + tbl))
    countries = countries_of(inst)
    c.execute(S.Country.__table__.insert(), [{"id": x["id"], "name": x["name"]} for x in countries])
    if inst.get("regions"):
        c.execute(S.Region.__table__.insert(), [{"id": r["id"], "name": r["name"],
                                                 "country_id": r.get("country", countries[0]["id"])} for r in inst["regions"]])
    if inst.get("orgs"):
        c.execute(S.Org.__table__.insert(), [{"id": o["id"], "name": o["name"], "size": o.get("size"),
                                              "region_id": o.get("region")} for o in inst["orgs"]])
    if inst.get("owners"):
        c.execute(S.Owner.__table__.insert(), [{"id": o["id"], "name": o["name"], "age": o.get("age"),
                                                "rank": o.get("rank", 0), "org_id": o.get("org"), "region_id": o.get("region"), "home_id": o.get("home")} for o in inst["owners"]])
    if inst.get("tags"):
        c.execute(S.Tag.__table__.insert(), [{"id": t["id"], "label": t["label"], "n": t["n"]} for t in inst["tags"]])
    rows = []
    links = []
    for i, r in enumerate(inst["items"]):
        iid = r.get("id", i + 1)
        rows.append({"id": iid, "i1": r.get("i1"), "i2": r.get("i2"), "r1": r.get("r1"), "s1": r.get("s1"),
                     "s2": r.get("s2"), "b1": r.get("b1"), "t1": _naive(r.get("t1")), "d1": _date(r.get("d1")),
                     "k": r.get("k", 0), "owner_id": r.get("owner"), "home_id": r.get("home"), "co_owner_id": r.get("co_owner")})
        for tid in r.get("tags", []):
            links.append({"item_id": iid, "tag_id": tid})
    c.execute(S.Item.__table__.insert(), rows)
    if links:
        c.execute(S.item_tags.insert(), links)
    if inst.get("parts"):
        c.execute(S.Part.__table__.insert(), [{"id": p["id"], "item_id": p["item"], "n": p["n"], "label": p["label"]}
                                              for p in inst["parts"]])
    return S


# =============================================================================================
# shipped ORM visitors for C16's immutability check
# =============================================================================================

def orm_visitors():
    out = []
    M = django_models()
    from odata_query.django.django_q import AstToDjangoQVisitor
    out.append(("django", lambda a: AstToDjangoQVisitor(M.Item).visit(a)))
    S = sqlalchemy_models()
    from odata_query.sqlalchemy.core import AstToSqlAlchemyCoreVisitor
    from odata_query.sqlalchemy.orm import AstToSqlAlchemyOrmVisitor
    out.append(("sqlalchemy-orm", lambda a: AstToSqlAlchemyOrmVisitor(S.Item).visit(a)))
    out.append(("sqlalchemy-core", lambda a: AstToSqlAlchemyCoreVisitor(S.Item.__table__).visit(a)))
    return out
