"""The harness's own term language: plain hashable tuples (DESIGN §3).

("id", name, ns_tuple)            ("path", base_term, attr)       ("lit", kind, text)
("list", (t, ...))                ("bin", op, l, r)   op in add sub mul div mod
("cmp", op, l, r) op in eq ne lt le gt ge in          ("bool", op, l, r) op in and or
("un", op, t)  op in not neg      ("call", name, ns, (arg, ...))  ("named", name, t)
("lambda", owner_term, "any"|"all", var|None, body|None)

Literal kinds: null int float bool str geo guid date time datetime duration.
For kind "str" (and "geo") the text is the *content* (unescaped); for every other
kind it is the source spelling.

Nothing in this module imports the library under test.
"""

BIN_OPS = ("add", "sub", "mul", "div", "mod")
CMP_OPS = ("eq", "ne", "lt", "le", "gt", "ge", "in")
BOOL_OPS = ("and", "or")
UN_OPS = ("not", "neg")
LIT_KINDS = (
    "null", "int", "float", "bool", "str", "geo", "guid", "date", "time",
    "datetime", "duration",
)


def ident(name, ns=()):
    return ("id", name, tuple(ns))


def path(*segs):
    t = ident(segs[0])
    for s in segs[1:]:
        t = ("path", t, s)
    return t


def lit(kind, text=""):
    return ("lit", kind, text)


def children(t):
    """Direct sub-terms of t, in source order."""
    k = t[0]
    if k in ("id", "lit"):
        return ()
    if k == "path":
        return (t[1],)
    if k == "list":
        return tuple(t[1])
    if k in ("bin", "cmp", "bool"):
        return (t[2], t[3])
    if k == "un":
        return (t[2],)
    if k == "call":
        return tuple(t[3])
    if k == "named":
        return (t[2],)
    if k == "lambda":
        return (t[1],) + ((t[4],) if t[4] is not None else ())
    raise ValueError(t)


def rebuild(t, new_children):
    """t with its direct sub-terms replaced (same arity)."""
    k = t[0]
    nc = tuple(new_children)
    if k in ("id", "lit"):
        return t
    if k == "path":
        return ("path", nc[0], t[2])
    if k == "list":
        return ("list", nc)
    if k in ("bin", "cmp", "bool"):
        return (k, t[1], nc[0], nc[1])
    if k == "un":
        return ("un", t[1], nc[0])
    if k == "call":
        return ("call", t[1], t[2], nc)
    if k == "named":
        return ("named", t[1], nc[0])
    if k == "lambda":
        if t[4] is not None:
            return ("lambda", nc[0], t[2], t[3], nc[1])
        return ("lambda", nc[0], t[2], t[3], None)
    raise ValueError(t)


def walk(t):
    """Pre-order iteration over all sub-terms (iterative)."""
    stack = [t]
    while stack:
        x = stack.pop()
        yield x
        stack.extend(reversed(children(x)))


def size(t):
    return sum(1 for _ in walk(t))


def depth(t):
    # iterative depth
    best = 0
    stack = [(t, 1)]
    while stack:
        x, d = stack.pop()
        if d > best:
            best = d
        for c in children(x):
            stack.append((c, d + 1))
    return best


def count_ops(t):
    return sum(1 for x in walk(t) if x[0] in ("bin", "cmp", "bool", "un", "call", "lambda"))


def positions(t, prefix=()):
    """All (position, subterm) pairs; position = tuple of child indexes."""
    out = [(prefix, t)]
    for i, c in enumerate(children(t)):
        out.extend(positions(c, prefix + (i,)))
    return out


def replace_at(t, pos, new):
    if not pos:
        return new
    cs = list(children(t))
    cs[pos[0]] = replace_at(cs[pos[0]], pos[1:], new)
    return rebuild(t, cs)


def to_json(t):
    """Terms as nested lists (JSON-able)."""
    if isinstance(t, tuple):
        return [to_json(x) for x in t]
    return t


def from_json(j):
    if isinstance(j, list):
        return tuple(from_json(x) for x in j)
    return j


def wellformed(t, top=True):
    """Is t a term the printer can render to grammatical OData text?"""
    k = t[0]
    if k == "named":
        return False  # only directly inside a call (checked there)
    if k == "list":
        return len(t[1]) >= 1 and all(wellformed(x) for x in t[1])
    if k == "cmp" and t[1] == "in":
        return t[3][0] == "list" and wellformed(t[2]) and wellformed(t[3])
    if k == "call":
        args = t[3]
        named = [a for a in args if a[0] == "named"]
        if named and len(named) != len(args):
            return False
        return all(wellformed(a[2]) if a[0] == "named" else wellformed(a) for a in args)
    if k == "lambda":
        if t[1][0] not in ("id", "path"):
            return False
        if t[4] is None:
            return t[2] == "any" and wellformed(t[1])
        return wellformed(t[1]) and wellformed(t[4])
    if k == "path":
        return t[1][0] in ("id", "path") and wellformed(t[1])
    return all(wellformed(c) for c in children(t))
