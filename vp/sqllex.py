"""Independent SQL lexer (SQL-92 lexical rules). No library imports.

Token kinds: str ('...' with '' as the only escape), qid ("..." with "" escape), num, word, op, punct,
comment (-- to end of line, /* ... */), semi, err (anything that is not a token: an unterminated quote,
a stray character). Whitespace is skipped."""
import re

OPS = ["||", "<=", ">=", "<>", "!=", "=", "<", ">", "+", "-", "*", "/", "%"]
_NUM = re.compile(r"\d+(?:\.\d+)?(?:[eE][+-]?\d+)?")
_WORD = re.compile(r"[A-Za-z_][A-Za-z0-9_]*")


def lex(s):
    """List of (kind, text) tokens covering the whole string."""
    out = []
    i = 0
    n = len(s)
    while i < n:
        c = s[i]
        if c in " \t\r\n":
            i += 1
            continue
        if c == "'":
            j = i + 1
            buf = []
            closed = False
            while j < n:
                if s[j] == "'":
                    if j + 1 < n and s[j + 1] == "'":
                        buf.append("'")
                        j += 2
                        continue
                    closed = True
                    break
                buf.append(s[j])
                j += 1
            if not closed:
                out.append(("err", s[i:]))
                return out
            out.append(("str", "".join(buf)))
            i = j + 1
            continue
        if c == '"':
            j = i + 1
            buf = []
            closed = False
            while j < n:
                if s[j] == '"':
                    if j + 1 < n and s[j + 1] == '"':
                        buf.append('"')
                        j += 2
                        continue
                    closed = True
                    break
                buf.append(s[j])
                j += 1
            if not closed:
                out.append(("err", s[i:]))
                return out
            out.append(("qid", "".join(buf)))
            i = j + 1
            continue
        if s.startswith("--", i):
            j = s.find("\n", i)
            j = n if j < 0 else j
            out.append(("comment", s[i:j]))
            i = j
            continue
        if s.startswith("/*", i):
            j = s.find("*/", i + 2)
            j = n if j < 0 else j + 2
            out.append(("comment", s[i:j]))
            i = j
            continue
        if c == ";":
            out.append(("semi", ";"))
            i += 1
            continue
        m = _NUM.match(s, i)
        if m:
            out.append(("num", m.group(0)))
            i = m.end()
            continue
        m = _WORD.match(s, i)
        if m:
            out.append(("word", m.group(0)))
            i = m.end()
            continue
        for op in OPS:
            if s.startswith(op, i):
                out.append(("op", op))
                i += len(op)
                break
        else:
            if c in "(),.":
                out.append(("punct", c))
                i += 1
            else:
                out.append(("err", c))
                i += 1
    return out


def shape(tokens):
    """Token sequence with string literals and quoted identifiers replaced by placeholders.
    A LIKE pattern together with its optional `ESCAPE '<one character>'` clause counts as one
    pattern literal: the escape character is part of how the pattern is spelled (like quote
    doubling is part of how a string is spelled), see DESIGN C07."""
    out = []
    i = 0
    n = len(tokens)
    while i < n:
        k, t = tokens[i]
        if k == "str" and i + 2 < n + 0 and tokens[i + 1][0] == "word" and tokens[i + 1][1].upper() == "ESCAPE" \
                and tokens[i + 2][0] == "str" and len(tokens[i + 2][1]) == 1:
            out.append(("str", "?"))
            i += 3
            continue
        out.append((k, "?" if k in ("str", "qid") else (t.upper() if k == "word" else t)))
        i += 1
    return out
