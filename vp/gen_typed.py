"""Typed grammar generator: every drawn term is well-typed by construction (DESIGN §3).
Types: Int Real Str Bool DateTime Date Time (+ Duration Guid Geo ListInt ListStr for C09/C12/C18).
No library imports."""
import datetime as dt

from hypothesis import strategies as st

from .terms import ident

COLUMNS = {"i1": "Int", "i2": "Int", "r1": "Real", "s1": "Str", "s2": "Str", "b1": "Bool",
           "t1": "DateTime", "d1": "Date"}

INT_VALUES = [0, 1, -1, 2, -2, 3, -3, 7, 10, -7, 100]
BIG_INTS = [2 ** 31 - 1, 2 ** 31, -2 ** 31 - 1, 2 ** 32 + 5, 10 ** 12 + 7, 2 ** 40 + 3]
LONG_STRINGS = ["a" * 70, "ab" * 150 + "'" + "b" * 10, "x" * 255 + "%", "y" * 256, ("B_" * 40) + "\\" + "z" * 30]
REAL_QUARTERS = list(range(-40, 41)) + [4938271, -4938271, 400000001] * 3   # ... 1234567.75, 100000000.25: 9 significant digits
STR_ALPHABET = ["a", "b", "A", "B", "0", " ", "'", "%", "_", "\\", '"', ";", "-", "☃"]
PAYLOADS = ["' OR 1=1 --", "%'; DROP TABLE item; --", "\\'", "a%b", "a_b", "100%", "_", "%", "\\",
            "ab", "aB", "Ab", " a ", "a'b", "''", "--", "/*", "a\\%b", "\\_", "%41", "a%20b", "%27"]
DT_GRID = ["2019-12-31T23:59:59", "2020-01-01T00:00:00", "2020-02-29T12:30:00", "2020-03-01T00:00:01",
           "2021-06-15T08:05:09", "1999-01-01T00:00:00"]
DATE_GRID = ["2019-12-31", "2020-01-01", "2020-02-29", "2020-03-01", "2021-06-15", "1999-01-01"]
TIME_GRID = ["00:00:00", "12:30:00", "23:59:59", "08:05:09"]


def real_text(k):
    """Spelling of k/4 as a decimal literal."""
    sign = "-" if k < 0 else ""
    a = abs(k)
    whole, rem = divmod(a, 4)
    return "%s%d.%s" % (sign, whole, {0: "0", 1: "25", 2: "5", 3: "75"}[rem])


class Fragment:
    """What a backend claims to support (DESIGN §5) plus fences for open known findings."""

    def __init__(self, name, funcs, neg=False, bare_bool=True, null_left=True, dt_offsets="z",
                 int_spellings=True, mod=True, like_arg1_literal_only=False, cmp_bool=True,
                 time_type=False, like_wildcards=True, pred_eq_bool=True, in_exprs=True,
                 bool_lit_pred=True, str_fn_first_arg=None, real_exp=True, substr_arg_kinds=None,
                 bare_bool_fn=True):
        self.name = name
        self.funcs = set(funcs)
        self.neg = neg
        self.bare_bool = bare_bool          # bare Bool column as a predicate
        self.bare_bool_fn = bare_bool_fn    # bare boolean function as a predicate
        self.null_left = null_left          # `null eq x`
        self.dt_offsets = dt_offsets        # "all" | "z" | "naive" | "mixed" (Z, offsets and none; metamorphic checks only)
        self.int_spellings = int_spellings
        self.mod = mod
        self.cmp_bool = cmp_bool            # comparisons between Bool-typed terms
        self.time_type = time_type
        self.like_wildcards = like_wildcards  # may % and _ appear in LIKE needles
        self.pred_eq_bool = pred_eq_bool
        self.in_exprs = in_exprs
        self.bool_lit_pred = bool_lit_pred
        self.real_exp = real_exp


STRING_FUNCS = ["contains", "startswith", "endswith", "length", "indexof", "substring", "tolower",
                "toupper", "trim", "concat"]
DATE_FUNCS = ["year", "month", "day", "hour", "minute", "date"]

# ---- literals -------------------------------------------------------------------------------


def int_lits(F):
    def spell(p):
        v, s = p
        if not F.int_spellings or s == 0:
            return ("lit", "int", str(v))
        if s == 1 and v >= 0:
            return ("lit", "int", "+%d" % v)
        if s == 2:
            return ("lit", "int", ("-" if v < 0 else "") + "00%d" % abs(v))
        return ("lit", "int", str(v))
    small = st.tuples(st.sampled_from(INT_VALUES), st.integers(0, 5)).map(spell)
    big = st.sampled_from(BIG_INTS).map(lambda v: ("lit", "int", str(v)))
    return st.one_of(small, small, small, small, small, small, small, small, small, big)


def real_lits(F):
    def spell(p):
        k, s = p
        base = real_text(k)
        if s == 1 and F.real_exp:
            # 15e-1 style: value k/4 = (k*25)e-2
            return ("lit", "float", "%de-2" % (k * 25))
        if s == 2 and F.real_exp:
            return ("lit", "float", base + "E0")
        return ("lit", "float", base)
    return st.tuples(st.sampled_from(REAL_QUARTERS), st.integers(0, 4)).map(spell)


def str_values(F=None, wild=True):
    alpha = STR_ALPHABET if wild else [c for c in STR_ALPHABET if c not in "%_\\"]
    pay = PAYLOADS if wild else [p for p in PAYLOADS if not any(c in p for c in "%_\\")]
    return st.one_of(st.lists(st.sampled_from(alpha), max_size=6).map("".join),
                     st.lists(st.sampled_from(["a", "b", "A", "B", " "]), max_size=4).map("".join),
                     st.sampled_from(pay))


def str_lits(F, wild=True):
    base = str_values(F, wild).map(lambda s: ("lit", "str", s))
    pool = LONG_STRINGS if wild else [x for x in LONG_STRINGS if not any(c in x for c in "%_\\")]
    long_ = st.sampled_from(pool).map(lambda s: ("lit", "str", s))
    return st.one_of(*([base] * 19 + [long_]))


def dt_lits(F):
    def spell(p):
        base, form = p
        if F.dt_offsets == "naive" or (F.dt_offsets == "mixed" and form == 0):
            return ("lit", "datetime", base)
        if F.dt_offsets == "z" or form < 3:
            return ("lit", "datetime", base + "Z")
        # an equivalent instant written with an offset: shift the wall clock
        d = dt.datetime.fromisoformat(base)
        off_min = [60, -300, 330, -45][form - 3]
        local = d + dt.timedelta(minutes=off_min)
        sign = "+" if off_min >= 0 else "-"
        return ("lit", "datetime", local.strftime("%Y-%m-%dT%H:%M:%S") + "%s%02d:%02d" % (
            sign, abs(off_min) // 60, abs(off_min) % 60))
    return st.tuples(st.sampled_from(DT_GRID), st.integers(0, 6)).map(spell)


def date_lits(F):
    return st.sampled_from(DATE_GRID).map(lambda s: ("lit", "date", s))


def time_lits(F):
    return st.sampled_from(TIME_GRID).map(lambda s: ("lit", "time", s))


def bool_lits(F):
    return st.sampled_from([("lit", "bool", "true"), ("lit", "bool", "false")])


LIT = {"Int": int_lits, "Real": real_lits, "Str": str_lits, "DateTime": dt_lits, "Date": date_lits,
       "Time": time_lits, "Bool": bool_lits}


def cols_of(ty):
    return [ident(c) for c, t in COLUMNS.items() if t == ty]


# ---- typed expression strategies ----------------------------------------------------------------

@st.composite
def expr(draw, ty, depth, F):
    if ty == "Bool":
        return draw(_pred(depth, F))
    leafy = depth <= 0 or draw(st.integers(0, 9)) < 3
    cols = cols_of(ty)
    if leafy:
        if cols and draw(st.integers(0, 9)) < 6:
            return draw(st.sampled_from(cols))
        return draw(LIT[ty](F))
    d = depth - 1
    if ty == "Int":
        opts = ["arith", "arith", "const-arith"]
        if F.neg:
            opts.append("neg")
        for f in ("length", "indexof"):
            if f in F.funcs:
                opts.append(f)
        for f in ("year", "month", "day", "hour", "minute", "second"):
            if f in F.funcs:
                opts.append("datepart")
                break
        c = draw(st.sampled_from(opts))
        if c == "arith":
            ops = ["add", "sub", "mul", "div"] + (["mod"] if F.mod else [])
            return ("bin", draw(st.sampled_from(ops)), draw(expr("Int", d, F)), draw(expr("Int", d, F)))
        if c == "const-arith":
            # arithmetic over two literals (something a constant folder would touch)
            ops = ["add", "sub", "mul", "div"] + (["mod"] if F.mod else [])
            return ("bin", draw(st.sampled_from(ops)), draw(int_lits(F)), draw(int_lits(F)))
        if c == "neg":
            return ("un", "neg", draw(expr("Int", d, F)))
        if c == "length":
            return ("call", "length", (), (draw(expr("Str", d, F)),))
        if c == "indexof":
            return ("call", "indexof", (), (draw(expr("Str", d, F)), draw(expr("Str", d, F))))
        parts = [f for f in ("year", "month", "day", "hour", "minute", "second") if f in F.funcs]
        fn = draw(st.sampled_from(parts))
        if fn in ("year", "month", "day") and draw(st.integers(0, 3)) == 0 and F.name != "sqla":
            return ("call", fn, (), (draw(expr("Date", 0, F)),))
        return ("call", fn, (), (draw(expr("DateTime", 0, F)),))
    if ty == "Real":
        opts = ["arith", "arith"]
        if F.neg:
            opts.append("neg")
        for f in ("round", "floor", "ceiling"):
            if f in F.funcs:
                opts.append(f)
        c = draw(st.sampled_from(opts))
        if c == "arith":
            op = draw(st.sampled_from(["add", "sub", "mul", "div"]))
            lt, rt = draw(st.sampled_from([("Real", "Real"), ("Real", "Int"), ("Int", "Real")]))
            return ("bin", op, draw(expr(lt, d, F)), draw(expr(rt, d, F)))
        if c == "neg":
            return ("un", "neg", draw(expr("Real", d, F)))
        return ("call", c, (), (draw(expr("Real", d, F)),))
    if ty == "Str":
        opts = [f for f in ("tolower", "toupper", "trim", "concat", "substring") if f in F.funcs]
        if not opts:
            return draw(st.sampled_from(cols)) if cols else draw(LIT[ty](F))
        c = draw(st.sampled_from(opts))
        if c in ("tolower", "toupper", "trim"):
            return ("call", c, (), (draw(expr("Str", d, F)),))
        if c == "concat":
            return ("call", "concat", (), (draw(expr("Str", d, F)), draw(expr("Str", d, F))))
        args = [draw(expr("Str", d, F)), draw(small_index(d, F))]
        if draw(st.booleans()):
            args.append(draw(small_index(d, F)))
        return ("call", "substring", (), tuple(args))
    if ty == "Date":
        if "date" in F.funcs and draw(st.booleans()):
            return ("call", "date", (), (draw(expr("DateTime", 0, F)),))
        return draw(st.sampled_from(cols)) if draw(st.booleans()) else draw(LIT[ty](F))
    if ty == "Time":
        if "time" in F.funcs and draw(st.booleans()):
            return ("call", "time", (), (draw(expr("DateTime", 0, F)),))
        return draw(LIT[ty](F))
    # DateTime
    return draw(st.sampled_from(cols)) if draw(st.booleans()) else draw(LIT[ty](F))


def small_index(d, F):
    """Int expression that usually evaluates to a small non-negative number."""
    lits = st.sampled_from([("lit", "int", str(i)) for i in (0, 1, 2, 3)])
    if d <= 0:
        return lits
    return st.one_of(lits, lits, lits,
                     st.tuples(st.sampled_from(["s1", "s2"])).map(
                         lambda c: ("call", "length", (), (ident(c[0]),))) if "length" in F.funcs else lits,
                     expr("Int", 0, F))


CMP_OPS = ["eq", "ne", "lt", "le", "gt", "ge"]


def pred(depth, F, scale=True):
    """A well-typed predicate of nesting depth <= depth; one draw in 25 is instead large along one
    dimension of the size ladder (see `scaled_pred`)."""
    small = _pred(depth, F)
    if not scale or depth < 2:
        return small
    return st.one_of(*([small] * 24 + [scaled_pred(F)]))


@st.composite
def _pred(draw, depth, F):
    d = depth - 1
    if depth <= 0:
        c = draw(st.integers(0, 9))
        if c < 7 or not F.bare_bool:
            return draw(comparison(0, F))
        return ident("b1")
    c = draw(st.integers(0, 99))
    if c in (2, 3) and depth >= 1:
        # the same construct twice on the same subject with different contents (two in-lists on one column,
        # two LIKE tests on one column): whatever a backend names or caches per column must not collide
        col, ty = draw(st.sampled_from([("s1", "Str"), ("s2", "Str"), ("i1", "Int"), ("i2", "Int")]))
        like = [f for f in ("contains", "startswith", "endswith") if f in F.funcs]

        both_lists = draw(st.booleans())

        def one_test():
            if ty == "Str" and like and not both_lists and draw(st.booleans()):
                return ("call", draw(st.sampled_from(like)), (), (ident(col), draw(str_lits(F, wild=F.like_wildcards))))
            n = draw(st.integers(1, 3))
            return ("cmp", "in", ident(col), ("list", tuple(draw(LIT[ty](F)) for _ in range(n))))
        a, b = one_test(), one_test()
        if draw(st.integers(0, 3)) == 0:
            b = ("un", "not", b)
        return ("bool", draw(st.sampled_from(["and", "or"])), a, b)
    if c == 0 and depth >= 2:
        # a long run of one boolean operator (left-nested or balanced), 9..17 operands
        op = draw(st.sampled_from(["and", "or"]))
        n = draw(st.sampled_from([9, 12, 17]))
        items = [draw(comparison(0, F)) for _ in range(n)]
        if draw(st.booleans()):
            t = items[0]
            for x in items[1:]:
                t = ("bool", op, t, x)
            return t

        def bal(xs):
            if len(xs) == 1:
                return xs[0]
            m = len(xs) // 2
            return ("bool", op, bal(xs[:m]), bal(xs[m:]))
        return bal(items)
    if c == 1 and depth >= 2:
        # a long arithmetic run
        op = draw(st.sampled_from(["add", "sub", "mul"]))
        n = draw(st.sampled_from([8, 12]))
        t = draw(expr("Int", 0, F))
        for _ in range(n):
            t = ("bin", op if op != "mul" else draw(st.sampled_from(["add", "mul"])), t,
                 draw(st.sampled_from([("lit", "int", "1"), ("lit", "int", "2"), ident("i1"), ident("i2")])))
        return ("cmp", draw(st.sampled_from(CMP_OPS)), t, draw(expr("Int", 0, F)))
    if c < 24:
        return ("bool", draw(st.sampled_from(["and", "or"])), draw(_pred(d, F)), draw(_pred(d, F)))
    if c < 32:
        return ("un", "not", draw(_pred(d, F)))
    if c < 62:
        return draw(comparison(d, F))
    if c < 72:
        return draw(null_test(d, F))
    if c < 80:
        return draw(in_list(d, F))
    if c < 92:
        fns = [f for f in ("contains", "startswith", "endswith") if f in F.funcs]
        if fns:
            call = ("call", draw(st.sampled_from(fns)), (), (draw(expr("Str", d, F)), draw(like_needle(d, F))))
            k = draw(st.integers(0, 5))
            if k == 0 and F.pred_eq_bool:
                return ("cmp", draw(st.sampled_from(["eq", "ne"])), call, draw(bool_lits(F)))
            if F.bare_bool_fn:
                return call
            return ("cmp", "eq", call, ("lit", "bool", "true"))
        return draw(comparison(d, F))
    if c < 96 and F.bare_bool:
        return ident("b1")
    if c < 98 and F.pred_eq_bool:
        return ("cmp", draw(st.sampled_from(["eq", "ne"])), ident("b1"), draw(bool_lits(F)))
    if "matchesPattern" in F.funcs:
        return ("call", "matchesPattern", (), (draw(st.sampled_from([ident("s1"), ident("s2")])),
                                               draw(regex_lits())))
    return draw(comparison(d, F))


def like_needle(d, F):
    wild = F.like_wildcards
    lit = str_lits(F, wild)
    if d <= 0:
        return st.one_of(lit, lit, st.sampled_from(cols_of("Str")))
    return st.one_of(lit, lit, lit, st.sampled_from(cols_of("Str")), expr("Str", d, F))


def regex_lits():
    return st.sampled_from([("lit", "str", p) for p in ["a", "^a", "b$", "a.b", "[ab]+", "^$", "a|B", "^[A-Z]", " "]])


@st.composite
def comparison(draw, d, F):
    tys = ["Int", "Int", "Real", "Str", "Str", "DateTime", "Date", "Num"]
    if "time" in F.funcs:
        tys.append("Time")
    ty = draw(st.sampled_from(tys))
    op = draw(st.sampled_from(CMP_OPS))
    if ty == "Num":
        lt, rt = draw(st.sampled_from([("Int", "Real"), ("Real", "Int")]))
    else:
        lt = rt = ty
    return ("cmp", op, draw(expr(lt, d, F)), draw(expr(rt, d, F)))


@st.composite
def null_test(draw, d, F):
    ty = draw(st.sampled_from(["Int", "Real", "Str", "DateTime", "Date", "Bool"]))
    if ty == "Bool":
        e = ident("b1")
    else:
        e = draw(expr(ty, min(d, 1), F))
    op = draw(st.sampled_from(["eq", "ne"]))
    if F.null_left and draw(st.integers(0, 3)) == 0:
        return ("cmp", op, ("lit", "null", ""), e)
    return ("cmp", op, e, ("lit", "null", ""))


@st.composite
def in_list(draw, d, F):
    tys = ["Int", "Int", "Str", "Str", "Real", "Date", "DateTime"]
    if "time" in F.funcs:
        tys.append("Time")
    ty = draw(st.sampled_from(tys))
    e = draw(expr(ty, min(d, 1), F))
    n = draw(st.sampled_from([1, 2, 2, 3, 3, 4, 4, 1, 2, 3, 12, 40]))
    items = []
    for _ in range(n):
        k = draw(st.integers(0, 11))
        if F.in_exprs and k < 2:
            items.append(draw(expr(ty, 0, F)))
        elif k == 2 and getattr(F, "in_null", True):
            items.append(("lit", "null", ""))
        else:
            items.append(draw(LIT[ty](F)))
    return ("cmp", "in", e, ("list", tuple(items)))


# ---- rows ----------------------------------------------------------------------------------------

def nullable(s, p_null=0.2):
    return st.one_of(st.none(), s, s, s, s) if p_null else s


def row_strategy():
    return st.fixed_dictionaries({
        "i1": nullable(st.sampled_from(INT_VALUES + BIG_INTS[:3])),
        "i2": nullable(st.sampled_from(INT_VALUES)),
        "r1": nullable(st.sampled_from(REAL_QUARTERS).map(lambda k: k / 4.0)),
        "s1": nullable(st.one_of(str_values(), str_values(), str_values(), st.sampled_from(LONG_STRINGS))),
        "s2": nullable(str_values()),
        "b1": nullable(st.booleans()),
        "t1": nullable(st.sampled_from(DT_GRID)),
        "d1": nullable(st.sampled_from(DATE_GRID)),
    })


def _expand_rows(p):
    """40-64 rows built from a few drawn rows and a drawn seed (drawing every cell of a large table
    through Hypothesis costs far more than running the check on it)."""
    import random
    base, seed = p
    r = random.Random(seed)
    strings = [row[c] for row in base for c in ("s1", "s2") if row[c] is not None] + PAYLOADS + LONG_STRINGS[:2] + ["", "a", "B"]
    dom = {"i1": INT_VALUES + BIG_INTS[:3], "i2": INT_VALUES, "r1": [k / 4.0 for k in REAL_QUARTERS], "s1": strings, "s2": strings,
           "b1": [True, False], "t1": DT_GRID, "d1": DATE_GRID}
    rows = [dict(x) for x in base]
    for _ in range(r.randrange(40, 65) - len(rows)):
        if r.random() < 0.3:
            row = dict(r.choice(base))
            c = r.choice(sorted(dom))
            row[c] = None if r.random() < 0.2 else r.choice(dom[c])
        else:
            row = {c: (None if r.random() < 0.2 else r.choice(v)) for c, v in dom.items()}
        rows.append(row)
    return rows


def rows_strategy(max_rows=6):
    few = st.lists(row_strategy(), min_size=1, max_size=max_rows)
    many = st.tuples(few, st.integers(0, 2 ** 30)).map(_expand_rows)
    return st.one_of(*([few] * 49 + [many]))


# ---- typing of generated terms (used by shrinkers to stay inside the fragment) -----------------

NUMERIC = ("Int", "Real")
LIT_TYPE = {"int": "Int", "float": "Real", "str": "Str", "bool": "Bool", "datetime": "DateTime",
            "date": "Date", "time": "Time", "null": "Null", "duration": "Duration", "guid": "Guid",
            "geo": "Geo"}


class IllTyped(Exception):
    pass


def type_of(t, columns=COLUMNS):
    """Type of a term of the scalar fragment, or raises IllTyped."""
    k = t[0]
    if k == "id":
        if t[2] or t[1] not in columns:
            raise IllTyped("unknown column %r" % (t,))
        return columns[t[1]]
    if k == "lit":
        return LIT_TYPE[t[1]]
    if k == "un":
        x = type_of(t[2], columns)
        if t[1] == "not":
            if x != "Bool":
                raise IllTyped("not over %s" % x)
            return "Bool"
        if x not in NUMERIC:
            raise IllTyped("neg over %s" % x)
        return x
    if k == "bin":
        a, b = type_of(t[2], columns), type_of(t[3], columns)
        if a not in NUMERIC or b not in NUMERIC:
            raise IllTyped("arith over %s,%s" % (a, b))
        if t[1] == "mod" and (a != "Int" or b != "Int"):
            raise IllTyped("mod over reals")
        return "Int" if (a == "Int" and b == "Int") else "Real"
    if k == "bool":
        if type_of(t[2], columns) != "Bool" or type_of(t[3], columns) != "Bool":
            raise IllTyped("and/or over non-bool")
        return "Bool"
    if k == "cmp":
        if t[1] == "in":
            a = type_of(t[2], columns)
            if t[3][0] != "list" or not t[3][1]:
                raise IllTyped("in without list")
            for e in t[3][1]:
                b = type_of(e, columns)
                if b == "Null":
                    continue
                if not _comparable(a, b):
                    raise IllTyped("in-list element %s vs %s" % (b, a))
            return "Bool"
        a, b = type_of(t[2], columns), type_of(t[3], columns)
        if "Null" in (a, b):
            if t[1] not in ("eq", "ne") or (a == "Null" and b == "Null"):
                raise IllTyped("ordering with null")
            return "Bool"
        if not _comparable(a, b):
            raise IllTyped("compare %s with %s" % (a, b))
        if a == "Bool" and t[1] not in ("eq", "ne"):
            raise IllTyped("ordering on Bool")
        return "Bool"
    if k == "call":
        name = t[1]
        if t[2]:
            raise IllTyped("namespaced call")
        args = [type_of(a, columns) for a in t[3]]
        sig = {
            "contains": (["Str", "Str"], "Bool"), "startswith": (["Str", "Str"], "Bool"),
            "endswith": (["Str", "Str"], "Bool"), "length": (["Str"], "Int"),
            "indexof": (["Str", "Str"], "Int"), "tolower": (["Str"], "Str"), "toupper": (["Str"], "Str"),
            "trim": (["Str"], "Str"), "concat": (["Str", "Str"], "Str"),
            "matchesPattern": (["Str", "Str"], "Bool"),
            "hour": (["DateTime"], "Int"), "minute": (["DateTime"], "Int"), "second": (["DateTime"], "Int"),
            "date": (["DateTime"], "Date"), "time": (["DateTime"], "Time"),
            "round": (["Real"], "Real"), "floor": (["Real"], "Real"), "ceiling": (["Real"], "Real"),
        }
        if name in ("year", "month", "day"):
            if args not in (["DateTime"], ["Date"]):
                raise IllTyped("%s(%s)" % (name, args))
            return "Int"
        if name == "substring":
            if args not in (["Str", "Int"], ["Str", "Int", "Int"]):
                raise IllTyped("substring%s" % args)
            return "Str"
        if name not in sig or args != sig[name][0]:
            raise IllTyped("%s(%s)" % (name, args))
        return sig[name][1]
    raise IllTyped("construct %s" % k)


def _comparable(a, b):
    if a in NUMERIC and b in NUMERIC:
        return True
    return a == b and a in ("Str", "Bool", "DateTime", "Date", "Time")


def well_typed_pred(t, columns=COLUMNS):
    try:
        return type_of(t, columns) == "Bool"
    except IllTyped:
        return False


# ---- the size ladder (typed side) ---------------------------------------------------------------

@st.composite
def scaled_pred(draw, F, dims=None):
    """A predicate that is large along exactly one dimension (list length, operator-run length,
    nesting depth, literal magnitude, string length), built from a handful of draws."""
    import random
    from .gen_syntax import LADDER, _positions
    dims = dims or ["inlist", "inlist", "boolchain", "arith", "nest", "bigint", "strlen"]
    dim = draw(st.sampled_from(dims))
    r = random.Random(draw(st.integers(0, 2 ** 30)))
    cmps = [draw(comparison(0, F)) for _ in range(4)]
    t = _build_scaled_pred(dim, r, cmps, F)
    ctx = draw(st.integers(0, 7))
    if ctx == 0:
        t = ("un", "not", t)
    elif ctx == 1:
        t = ("bool", "and", cmps[3], t)
    elif ctx == 2:
        t = ("bool", "or", t, cmps[3])
    elif ctx == 3:
        t = ("bool", "and", ("un", "not", t), cmps[3])
    return t


def _build_scaled_pred(dim, r, cmps, F):
    from .gen_syntax import _positions
    # the typed side is executed by real engines: sizes stay below their own limits (SQLite's parser
    # stack, the ORMs' recursive compilers), which are not the library's to answer for
    LADDER = {"list": [5, 8, 9, 10, 11, 12, 13, 16, 17, 25, 32, 33, 37, 64, 65, 100, 101, 129, 257, 1000, 1001],
              "chain": [9, 12, 13, 14, 17, 33, 49, 50, 51, 64, 65, 66],
              "nest": [5, 6, 7, 9, 13, 17],
              "strlen": [16, 17, 33, 65, 129, 300, 1025]}
    I1, I2, S1, S2 = ident("i1"), ident("i2"), ident("s1"), ident("s2")
    if dim == "inlist":
        n = r.choice(LADDER["list"])
        if r.random() < 0.6:
            col, other = r.choice([(I1, I2), (I2, I1)])
            base, step = r.choice([(0, 1), (1000, 1), (-5, 3), (2 ** 31 - 3, 1)])
            items = [("lit", "int", str(base + i * step)) for i in range(n)]
        else:
            col, other = r.choice([(S1, S2), (S2, S1)])
            items = [("lit", "str", ["k%d", "it's %d", "%d%%", "a_%d", "%d"][i % 5 if r.random() < 0.5 else 0] % i)
                     for i in range(n)]
        for p in _positions(r, n, r.randrange(0, 3)):
            k = r.randrange(4)
            if k == 0 and getattr(F, "in_null", True):
                items[p] = ("lit", "null", "")
            elif k == 1 and F.in_exprs:
                items[p] = other
            elif k == 2:
                items[p] = items[r.randrange(n)]          # a repeated value
        return ("cmp", "in", col, ("list", tuple(items)))
    if dim == "boolchain":
        n = r.choice(LADDER["chain"])
        op = r.choice(["and", "or"])
        oth = "or" if op == "and" else "and"
        pool = [("cmp", "ne", I1, ("lit", "int", "5")), ("cmp", "le", I2, ("lit", "int", "100")),
                ("cmp", "ne", S1, ("lit", "str", "q")), ("cmp", "eq", I2, ("lit", "int", "1")),
                ("cmp", "ge", I1, ("lit", "int", "0")), ("cmp", "lt", I1, ("lit", "int", "3")),
                ("cmp", "eq", I1, I2), ("cmp", "ne", S2, S1)] + cmps[:3]
        items = [r.choice(pool) for _ in range(n)]
        for p in _positions(r, n, r.randrange(1, 4)):
            items[p] = ("bool", oth, r.choice(pool), r.choice(pool))
        # the ends of a run are where an iterative rewrite of the recursion goes wrong first
        if r.random() < 0.5:
            items[0] = ("bool", oth, r.choice(pool), r.choice(pool))
        if r.random() < 0.3:
            items[-1] = ("bool", oth, r.choice(pool), r.choice(pool))
        shape = r.choice([0, 0, 1, 2])
        if shape == 0:
            t = items[0]
            for x in items[1:]:
                t = ("bool", op, t, x)
            return t
        if shape == 1:
            t = items[-1]
            for x in reversed(items[:-1]):
                t = ("bool", op, x, t)
            return t

        def bal(xs):
            if len(xs) == 1:
                return xs[0]
            m = len(xs) // 2
            return ("bool", op, bal(xs[:m]), bal(xs[m:]))
        return bal(items)
    if dim == "arith":
        n = r.choice(LADDER["chain"])
        fam = r.choice([["add", "sub"], ["sub"], ["add"], ["add", "sub", "mul"]])
        t = r.choice([I1, I2])
        total = 0
        for i in range(n):
            op = r.choice(fam)
            x = r.choice([("lit", "int", "1"), ("lit", "int", "2"), ("lit", "int", "1"), I2 if op != "mul" else ("lit", "int", "1")])
            if r.random() < 0.15:
                # a right operand that is itself a run: parentheses are required
                x = ("bin", r.choice(["add", "sub"]), x, ("lit", "int", "3"))
            t = ("bin", op, t, x)
        return ("cmp", r.choice(["le", "gt", "eq", "ne"]), t, ("lit", "int", str(r.choice([0, -n, n, -n // 2, 1]))))
    if dim == "nest":
        d = r.choice(LADDER["nest"])
        kind = r.randrange(4)
        if kind == 0:
            t = cmps[0]
            for _ in range(d):
                t = ("un", "not", t)
            return t
        if kind == 1:
            t = cmps[0]
            for i in range(d):
                t = ("bool", "and" if i % 2 else "or", t, cmps[1 + i % 3]) if r.random() < 0.5 else \
                    ("bool", "and" if i % 2 else "or", cmps[1 + i % 3], t)
            return t
        if kind == 2 and "concat" in F.funcs:
            t = r.choice([S1, S2])
            for i in range(min(d, 17)):
                piece = ("lit", "str", r.choice(["a", "b", "", "'", "ab"]))
                t = ("call", "concat", (), (t, piece)) if i % 2 else ("call", "concat", (), (piece, t))
            return ("cmp", r.choice(["eq", "ne", "ge"]), t, r.choice([S1, S2, ("lit", "str", "aab")]))
        if {"tolower", "toupper", "trim"} <= F.funcs:
            t = r.choice([S1, S2])
            for i in range(d):
                t = ("call", r.choice(["tolower", "toupper", "trim"]), (), (t,))
            return ("cmp", r.choice(["eq", "ne"]), t, r.choice([("lit", "str", "ab"), ("lit", "str", "AB"), S2]))
        t = cmps[0]
        for _ in range(d):
            t = ("un", "not", t)
        return t
    if dim == "bigint":
        v = r.choice([2 ** 53, 2 ** 53 + 1, 2 ** 53 - 1, -(2 ** 53) - 1, 2 ** 62 + 1, 2 ** 63 - 1, -2 ** 63, -2 ** 63 + 1,
                      10 ** 16 + 1, 10 ** 18 + 1, 2 ** 31, 2 ** 32 + 1, 10 ** 15 + 1])
        col = r.choice([I1, I2])
        k = r.randrange(4)
        lit = ("lit", "int", str(v))
        if k == 0:
            near = [("lit", "int", str(v + dv)) for dv in (-2, 2) if -2 ** 63 <= v + dv < 2 ** 63]
            return ("cmp", "in", col, ("list", tuple([lit] + near)))
        return ("cmp", r.choice(["eq", "ne", "lt", "le", "gt", "ge"]), col, lit)
    if dim == "strlen":
        n = r.choice(LADDER["strlen"])
        like = [f for f in ("contains", "startswith", "endswith") if f in F.funcs]
        wild = F.like_wildcards
        units = ["'", "a", "'a", " ", "ab'", "☃"] + (["%", "_", "\\", "%_", "_%a"] if wild else [])
        text = (r.choice(units) * n)[:n]
        col = r.choice([S1, S2])
        if like and r.random() < 0.6:
            return ("call", r.choice(like), (), (col, ("lit", "str", text)))
        return ("cmp", r.choice(["eq", "ne", "ge"]), col, ("lit", "str", text))
    raise ValueError(dim)
