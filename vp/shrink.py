"""Greedy shrinkers with a bounded number of oracle calls (replaces Hypothesis's own
shrinker in collect mode, see DESIGN §2)."""
from .terms import children, positions, replace_at, size

MIN_LEAVES = [("id", "a", ()), ("lit", "int", "1"), ("lit", "str", "")]


def term_candidates(t, extra_leaves=()):
    """Smaller variants of t, biggest simplifications first."""
    pos = positions(t)
    pos.sort(key=lambda ps: -size(ps[1]))
    for p, s in pos:
        # replace by a descendant (children first)
        for c in children(s):
            yield replace_at(t, p, c)
            for cc in children(c):
                yield replace_at(t, p, cc)
        # drop an element of a list / call argument list
        if s[0] == "list" and len(s[1]) > 1:
            for i in range(len(s[1])):
                yield replace_at(t, p, ("list", s[1][:i] + s[1][i + 1:]))
        if s[0] == "call" and len(s[3]) > 0:
            for i in range(len(s[3])):
                yield replace_at(t, p, ("call", s[1], s[2], s[3][:i] + s[3][i + 1:]))
        if s[0] == "lambda" and s[4] is not None:
            yield replace_at(t, p, ("lambda", s[1], s[2], None, None))
        if s[0] not in ("id", "lit") or size(s) > 1:
            for lf in tuple(extra_leaves) + tuple(MIN_LEAVES):
                if lf != s:
                    yield replace_at(t, p, lf)
        if s[0] == "lit" and s[1] == "str" and len(s[2]) > 0:
            txt = s[2]
            yield replace_at(t, p, ("lit", "str", ""))
            if len(txt) > 1:
                yield replace_at(t, p, ("lit", "str", txt[: len(txt) // 2]))
                yield replace_at(t, p, ("lit", "str", txt[len(txt) // 2:]))
                for i in range(min(len(txt), 8)):
                    yield replace_at(t, p, ("lit", "str", txt[:i] + txt[i + 1:]))
        if s[0] == "id" and s[2]:
            yield replace_at(t, p, ("id", s[1], ()))


def shrink_term(t, still_fails, budget=400, extra_leaves=()):
    """Smallest variant of t (by size then repr length) for which still_fails holds."""
    calls = 0
    seen = {t}
    improved = True
    while improved and calls < budget:
        improved = False
        cur = (size(t), len(repr(t)))
        for cand in term_candidates(t, extra_leaves):
            if cand in seen:
                continue
            seen.add(cand)
            if (size(cand), len(repr(cand))) >= cur:
                continue
            calls += 1
            ok = False
            try:
                ok = still_fails(cand)
            except Exception:
                ok = False
            if ok:
                t = cand
                improved = True
                break
            if calls >= budget:
                break
    return t


def shrink_list(items, still_fails, budget=100):
    """Drop elements of a list while the failure persists."""
    items = list(items)
    calls = 0
    i = 0
    while i < len(items) and calls < budget:
        cand = items[:i] + items[i + 1:]
        calls += 1
        try:
            ok = still_fails(cand)
        except Exception:
            ok = False
        if ok:
            items = cand
        else:
            i += 1
    return items


def shrink_text(s, still_fails, budget=300):
    """ddmin-style character deletion."""
    calls = 0
    n = 2
    while len(s) >= 2 and calls < budget:
        chunk = max(1, len(s) // n)
        reduced = False
        for i in range(0, len(s), chunk):
            cand = s[:i] + s[i + chunk:]
            if not cand:
                continue
            calls += 1
            try:
                ok = still_fails(cand)
            except Exception:
                ok = False
            if ok:
                s = cand
                n = max(n - 1, 2)
                reduced = True
                break
            if calls >= budget:
                break
        if not reduced:
            if chunk == 1:
                break
            n = min(n * 2, len(s))
    return s
