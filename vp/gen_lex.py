"""Literal spellings per ABNF kind, identifiers, and the harness's own value functions.
No library imports."""
import datetime as dt
import re
import uuid
from fractions import Fraction

from hypothesis import strategies as st

DIG = "0123456789"


def digits(lo, hi):
    return st.text(alphabet=DIG, min_size=lo, max_size=hi)


def anycase(s):
    """Strategy: s with each letter's case drawn."""
    return st.lists(st.booleans(), min_size=len(s), max_size=len(s)).map(
        lambda bs: "".join(c.upper() if b else c.lower() for c, b in zip(s, bs)))


# ---- generators: each yields source text of a well-formed literal of the kind --------------

def ints():
    return st.tuples(st.sampled_from(["", "", "+", "-"]), digits(1, 30)).map("".join)


@st.composite
def floats(draw):
    sign = draw(st.sampled_from(["", "", "+", "-"]))
    ip = draw(digits(1, 12))
    form = draw(st.integers(0, 2))
    frac = "." + draw(digits(1, 12)) if form in (0, 2) else ""
    exp = ""
    if form in (1, 2):
        exp = draw(st.sampled_from(["e", "E"])) + draw(st.sampled_from(["", "+", "-"])) + draw(digits(1, 2))
    return sign + ip + frac + exp


def bools():
    return st.one_of(anycase("true"), anycase("false"))


def nulls():
    return anycase("null")


def str_contents():
    return st.one_of(
        st.text(alphabet=st.characters(blacklist_categories=("Cs",)), max_size=12),
        st.text(alphabet="ab'' \n\t%_\\\";-/*", max_size=10),
        st.sampled_from(["'", "''", "'''", "a'b", "' or 1 eq 1 or '", "\x00", "’", " ", "",
                         "duration'P1D'", "geography'x'", "null", "true", "%41", "a%20b", "%27", "100%25", "%u0041",
                         "\\n", "\\'", "&amp;", "+", "a+b", "e\u0301", "\u212b", "\u2126", "\u1100\u1161", "A\u030a", "\ufb01", "\uff07"]),
    )


def guids():
    hexd = "0123456789abcdefABCDEF"
    return st.tuples(*[st.text(alphabet=hexd, min_size=n, max_size=n) for n in (8, 4, 4, 4, 12)]).map("-".join)


def _valid_date(y, m, d):
    try:
        dt.date(y, m, d)
        return True
    except ValueError:
        return False


@st.composite
def date_fields(draw):
    y = draw(st.one_of(st.sampled_from([1000, 1999, 2000, 2020, 2024, 2100, 9999]), st.integers(1000, 9999)))
    m = draw(st.integers(1, 12))
    d = draw(st.one_of(st.sampled_from([1, 28, 29, 30, 31]), st.integers(1, 31)))
    while not _valid_date(y, m, d):
        d -= 1
    return (y, m, d)


def dates():
    return date_fields().map(lambda f: "%04d-%02d-%02d" % f)


@st.composite
def time_texts(draw, seconds_optional=False):
    h = draw(st.one_of(st.sampled_from([0, 9, 10, 19, 20, 23]), st.integers(0, 23)))
    mi = draw(st.one_of(st.sampled_from([0, 59]), st.integers(0, 59)))
    out = "%02d:%02d" % (h, mi)
    if seconds_optional and draw(st.integers(0, 3)) == 0:
        return out
    s = draw(st.one_of(st.sampled_from([0, 59]), st.integers(0, 59)))
    out += ":%02d" % s
    if draw(st.booleans()):
        out += "." + draw(digits(1, 12))
    return out


def times():
    return time_texts(False)


@st.composite
def datetimes(draw):
    d = draw(dates())
    t = draw(time_texts(True))
    T = draw(st.sampled_from(["T", "T", "t"]))
    z = draw(st.integers(0, 3))
    off = ""
    if z == 1:
        off = draw(st.sampled_from(["Z", "Z", "z"]))
    elif z == 2:
        off = (draw(st.sampled_from("+-")) + "%02d:%02d" % (draw(st.integers(0, 23)), draw(st.integers(0, 59))))
    elif z == 3:
        off = draw(st.sampled_from(["+00:00", "-00:00", "+14:00", "-12:00", "+05:30", "+23:59", "-23:59"]))
    return d + T + t + off


@st.composite
def durations(draw, exhaustive_mask=None):
    """[sign] P [nY][nM][nD] [T [nH][nM][n[.f]S]] with at least one component."""
    mask = exhaustive_mask if exhaustive_mask is not None else draw(st.integers(1, 63))
    sign = draw(st.sampled_from(["", "", "+", "-"]))
    num = st.one_of(st.sampled_from(["0", "1", "12", "999999"]), digits(1, 6))
    out = sign + "P"
    if mask & 1:
        out += draw(num) + "Y"
    if mask & 2:
        out += draw(num) + "M"
    if mask & 4:
        out += draw(num) + "D"
    if mask & 56:
        out += "T"
        if mask & 8:
            out += draw(num) + "H"
        if mask & 16:
            out += draw(num) + "M"
        if mask & 32:
            s = draw(num)
            if draw(st.booleans()):
                s += "." + draw(digits(1, 9))
            out += s + "S"
    return out


def duration_sources():
    """duration text with the letter case of P/T/Y/M/D/H/S drawn."""
    return st.tuples(durations(), st.integers(0, 2)).map(
        lambda p: p[0] if p[1] == 0 else (p[0].lower() if p[1] == 1 else p[0].swapcase()))


def geos():
    wkt = st.one_of(
        st.sampled_from(["POINT(1 2)", "SRID=4326;POINT(4.35 50.85)", "POLYGON((0 0,0 1,1 1,0 0))",
                         "LINESTRING(0 0, 1 1)", "", " "]),
        st.text(alphabet="POINTLSRGDMY=;(),. 0123456789-abc", max_size=30),
    )
    return wkt


KEYWORDY = ["nullable", "trueness", "falsehood", "anything", "allowed", "notes", "inside", "android",
            "order", "address", "subject", "divide", "modern", "equal", "news", "gte", "lte", "int",
            "duration", "geography", "e5", "p1d", "nullify", "truest", "falsey", "anyone", "allow",
            "all_items", "any_", "null_", "true_", "false1", "nulls", "trues", "alls", "anys",
            "Nullable", "TRUEish", "ALLcaps", "Anybody", "notify", "android_id", "mode", "adder",
            "andy", "oracle", "inn", "ltd", "get", "lead", "need", "eq_", "divider", "mulled", "subs",
            "T1", "Z", "P", "PT", "geo", "geox", "datetime", "date_", "time1", "guid"]
KEYWORDS = ["null", "true", "false", "any", "all", "not", "and", "or", "eq", "ne", "lt", "le", "gt", "ge",
            "in", "add", "sub", "mul", "div", "mod"]
IDCHARS = "abcxyzABCXYZ_0123456789"


def plain_idents():
    tail = st.text(alphabet=IDCHARS, max_size=10)
    rnd = st.tuples(st.sampled_from("abcxyzABCXYZ_nta"), tail).map("".join)
    kw_suffix = st.tuples(st.sampled_from(KEYWORDS), st.text(alphabet=IDCHARS, min_size=1, max_size=5)).map("".join)
    kw_prefix = st.tuples(st.text(alphabet="abcxyz_", min_size=1, max_size=4), st.sampled_from(KEYWORDS)).map("".join)
    kw_case = st.sampled_from(KEYWORDS).flatmap(
        lambda k: st.tuples(anycase(k), st.text(alphabet=IDCHARS, min_size=1, max_size=4)).map("".join))
    # names at the documented length limit (128 characters)
    long_names = st.tuples(st.sampled_from("abX_"), st.sampled_from([100, 126, 127]),
                           st.sampled_from(["a", "null", "Z9_", "true"])).map(
        lambda p: (p[0] + p[2] * 200)[:p[1] + 1])
    return st.one_of(rnd, rnd, st.sampled_from(KEYWORDY), kw_suffix, kw_prefix, kw_case, long_names)


def is_bare_keyword(name):
    return name.lower() in KEYWORDS


@st.composite
def identifiers(draw):
    """(text, name, namespace)."""
    name = draw(plain_idents().filter(lambda n: not is_bare_keyword(n)))
    nns = draw(st.integers(0, 3)) if draw(st.booleans()) else 0
    ns = []
    for _ in range(nns):
        # a namespace segment is itself an identifier that is not a bare keyword and does not
        # start the whole token with a keyword-only segment
        ns.append(draw(plain_idents().filter(lambda n: not is_bare_keyword(n))))
    text = ".".join(ns + [name])
    if len(text) > 128:
        text, ns = name, []
    return (text, name, tuple(ns))


# ---- the harness's own value functions --------------------------------------------------

_DATE = r"(\d{4})-(\d{2})-(\d{2})"
_TIME = r"(\d{2}):(\d{2})(?::(\d{2})(?:\.(\d+))?)?"
_OFF = r"(Z|z|[+-]\d{2}:\d{2})?"


def _time_of(h, mi, s, f):
    micro = int((f or "")[:6].ljust(6, "0")) if f else 0
    return dt.time(int(h), int(mi), int(s or 0), micro)


def value_of(kind, text):
    """The value a well-formed literal denotes, computed without the library."""
    if kind == "int":
        return int(text)
    if kind == "float":
        m = re.fullmatch(r"([+-]?)(\d+)(?:\.(\d+))?(?:[eE]([+-]?\d+))?", text)
        sign, ip, fp, ex = m.groups()
        fr = Fraction(int(ip + (fp or "")), 10 ** len(fp or ""))
        fr *= Fraction(10) ** int(ex or 0)
        if sign == "-":
            fr = -fr
        return float(fr)
    if kind == "bool":
        return {"true": True, "false": False}[text.lower()]
    if kind == "null":
        return None
    if kind in ("str", "geo"):
        return text
    if kind == "guid":
        return uuid.UUID(text)
    if kind == "date":
        y, m, d = re.fullmatch(_DATE, text).groups()
        return dt.date(int(y), int(m), int(d))
    if kind == "time":
        return _time_of(*re.fullmatch(_TIME, text).groups())
    if kind == "datetime":
        m = re.fullmatch(_DATE + "[Tt]" + _TIME + _OFF, text)
        y, mo, d, h, mi, s, f, off = m.groups()
        t = _time_of(h, mi, s, f)
        tz = None
        if off:
            if off in "Zz":
                tz = dt.timezone.utc
            else:
                sg = -1 if off[0] == "-" else 1
                tz = dt.timezone(sg * dt.timedelta(hours=int(off[1:3]), minutes=int(off[4:6])))
        return dt.datetime(int(y), int(mo), int(d), t.hour, t.minute, t.second, t.microsecond, tzinfo=tz)
    if kind == "duration":
        m = re.fullmatch(r"([+-])?P(?:(\d+)Y)?(?:(\d+)M)?(?:(\d+)D)?(?:T(?:(\d+)H)?(?:(\d+)M)?(?:(\d+(?:\.\d+)?)S)?)?",
                         text.upper())
        sign, y, mo, d, h, mi, s = m.groups()
        days = Fraction(int(y or 0)) * Fraction(1461, 4) + Fraction(int(mo or 0)) * Fraction(761, 25) + int(d or 0)
        secs = days * 86400 + int(h or 0) * 3600 + int(mi or 0) * 60 + Fraction(s or "0")
        return -secs if sign == "-" else secs
    raise ValueError(kind)


def same_value(kind, a, b):
    """Equality of two values of the kind (datetimes: same instant and same offset)."""
    if kind == "datetime":
        if (a.tzinfo is None) != (b.tzinfo is None):
            return False
        if a.tzinfo is not None and a.utcoffset() != b.utcoffset():
            return False
        return a == b
    if kind == "float":
        return a == b or (a != a and b != b)
    return a == b


def duration_close(td, secs, text=None):
    """timedelta vs exact Fraction seconds. Without a month component every quantity involved is a
    multiple of a quarter day, a whole hour/minute or a decimal number of seconds, so a float
    computation that keeps the components apart is exact up to the final rounding to microseconds
    (tolerance 1 microsecond). The month length 30.44 is not a binary fraction: with months the
    tolerance grows by a few ulps of the total."""
    got = Fraction(td.days) * 86400 + td.seconds + Fraction(td.microseconds, 10 ** 6)
    tol = Fraction(1, 10 ** 6)
    months = True
    if text is not None:
        m = re.fullmatch(r"[+-]?P(?:\d+Y)?(?:(\d+)M)?(?:\d+D)?(?:T.*)?", text.upper())
        months = bool(m and m.group(1) and int(m.group(1)))
    if months:
        tol += abs(secs) * Fraction(1, 2 ** 49)
    return abs(got - secs) <= tol
