"""Coverage-guided search for the AST-level properties: atheris/libFuzzer mutates a byte buffer,
Hypothesis decodes it through the check's own strategy (`fuzz_one_input`), the check's own oracle
runs inside the target. A violation does not stop the campaign: it is appended (one JSON line per
new bucket, at most a few per bucket) to the file named by VERIF_FUZZ_OUT and the search goes on.

Run as:  python -m vp.fuzz_prop vp.props.c13 [libFuzzer args] <corpus dir>
The property module provides  fuzz_target() -> (strategy, fn)  with fn(case) -> None | (bucket, detail, case_json)."""
import json
import os
import sys


def main():
    here = os.path.dirname(os.path.dirname(os.path.abspath(__file__)))
    sys.path.insert(1, os.path.join(here, ".deps"))
    sys.path.insert(0, os.environ.get("VERIF_REPO", "/repo"))
    modname = sys.argv.pop(1)
    import atheris
    with atheris.instrument_imports(include=["odata_query"]):
        import odata_query.grammar  # noqa: F401
        import odata_query.rewrite  # noqa: F401
        import odata_query.roundtrip  # noqa: F401
        import odata_query.typing  # noqa: F401
        import odata_query.utils  # noqa: F401
        import odata_query.visitor  # noqa: F401
        import odata_query.sql  # noqa: F401
    import importlib
    from hypothesis import HealthCheck, given, settings
    mod = importlib.import_module(modname)
    strategy, fn = mod.fuzz_target()
    out_path = os.environ.get("VERIF_FUZZ_OUT")
    seen = {}

    @settings(database=None, deadline=None, suppress_health_check=list(HealthCheck))
    @given(strategy)
    def test(case):
        r = fn(case)
        if r:
            bucket, detail, cj = r
            seen[bucket] = seen.get(bucket, 0) + 1
            if out_path and seen[bucket] <= 4:
                with open(out_path, "a") as f:
                    f.write(json.dumps({"bucket": bucket, "detail": str(detail)[:2000], "case": cj}, default=str) + "\n")

    fuzz_one = test.hypothesis.fuzz_one_input

    def target(data):
        fuzz_one(data)

    atheris.Setup(sys.argv, target)
    atheris.Fuzz()


if __name__ == "__main__":
    main()
