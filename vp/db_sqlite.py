"""Raw sqlite3 harness for the SQLite dialect (one in-memory connection per process)."""
import sqlite3

COLS = ["i1", "i2", "r1", "s1", "s2", "b1", "t1", "d1"]
_conn = None


def conn():
    global _conn
    if _conn is None:
        _conn = sqlite3.connect(":memory:")
        _conn.execute("PRAGMA case_sensitive_like=ON")
        _conn.execute("CREATE TABLE item(id INTEGER PRIMARY KEY, i1 INTEGER, i2 INTEGER, r1 REAL, "
                      "s1 TEXT, s2 TEXT, b1 INTEGER, t1 TEXT, d1 TEXT)")
    return _conn


def storage(row):
    r = dict(row)
    if r.get("t1") is not None:
        r["t1"] = r["t1"].replace("T", " ")
    if r.get("b1") is not None:
        r["b1"] = 1 if r["b1"] else 0
    return r


def load(rows):
    c = conn()
    c.execute("DELETE FROM item")
    c.executemany("INSERT INTO item(id, %s) VALUES (?%s)" % (", ".join(COLS), ", ?" * len(COLS)),
                  [tuple([i + 1] + [storage(r)[k] for k in COLS]) for i, r in enumerate(rows)])


def select_ids(where_sql):
    """ids selected by the WHERE clause; raises sqlite3.Error on malformed SQL."""
    cur = conn().execute("SELECT id FROM item WHERE " + where_sql + " ORDER BY id")
    return [r[0] for r in cur.fetchall()]


def prepares(where_sql):
    """Does SQLite accept `SELECT 1 FROM item WHERE <sql>` as exactly one statement?"""
    try:
        conn().execute("EXPLAIN SELECT 1 FROM item WHERE " + where_sql)
        return True, ""
    except (sqlite3.Error, sqlite3.Warning, ValueError) as e:
        return False, str(e)
